/-
  C20 (second sentence) — width-aware integer accumulation: "sums and products of integers are accumulated in the
  advertised result dtype, so they never wrap at the narrower width of the input".

  `Val` (the number type of the rest of the model) has no machine widths.  This file is the missing piece: fixed-width
  two's-complement arithmetic on `Int`, and a model of HOW each engine and the chunked pipeline accumulate a sum /
  product of integers.  What the code does (read from /repo, bug for bug):

    * engine "flox"   (`aggregate_flox._np_grouped_op`): `np.add.reduceat(array, starts, dtype=dtype)` /
      `np.multiply.reduceat(..., dtype=dtype)` – NumPy casts the operand to `dtype` and runs one sequential accumulator
      of that dtype per group (= `castFirst := true`).  `sum_of_squares` squares the array itself; since /repo 73517da
      it casts to `dtype` BEFORE squaring (before: `array**2` in the input dtype = `squareNarrow`).
    * engine "numpy"  (`aggregate_npg` → numpy_groupies): `prod` is `ret = np.full(size, 1, dtype); np.multiply.at(ret,
      group_idx, a)` – a sequential accumulator of dtype `dtype`, every element cast on the way in (= `castFirst := true`).
      `sum` is `np.bincount(group_idx, weights=a).astype(dtype)`: a sequential accumulator in float64, exact while the
      partial sums stay below 2^53 – inside that region it coincides with the exact sum and hence with every width-64
      model below (the harness stream never leaves it: |total| ≤ 40 · 2^15).
    * engine "numbagg" (`aggregate_numbagg._numbagg_wrapper`): numbagg's loops accumulate in the dtype of the array they
      are given; since /repo a3da74f the wrapper does `array.astype(dtype)` first for nansum / nanprod /
      nansum_of_squares (= `castFirst := true`).  Before that repair the loop ran in the INPUT dtype and only the result
      was cast (= `castFirst := false`): `narrow_accumulation_counterexample`.
    * `dtype` is `agg.dtype["numpy"]` (eager, `_reduce_blockwise`) or `agg.dtype["intermediate"]` (chunked,
      `chunk_reduce` inside every block) of `_initialize_aggregation`; `core.chunk_reduce` hands it to the engine as
      `dtype=` and casts the result with `.astype(dt)`.  For integer input both are 64 bits wide
      (`FloxProps/C11.intermediates_wide_enough`, re-exported in `FloxProps/C20`).
    * chunked: the per-block partials (arrays of dtype `intermediate`) are combined by `np.sum` / `np.prod` along the
      block axis (`_simple_combine`) or by `chunk_reduce(func="sum" | "prod", dtype=intermediate)` (`_grouped_combine`)
      – again a wrapping accumulation at the accumulator width – level by level in dask's tree reduction
      (`split_every` children per node, any depth; `cohorts` combines subsets of the blocks).

  Core Lean only, no imports (this file is linked into the native driver).
-/

namespace Flox.IntWidth

/-! ## fixed-width integers -/

/-- reduce into the unsigned `w`-bit range `[0, 2^w)` (what a `uintW` register keeps of a mathematical integer) -/
def wrapU (w : Nat) (x : Int) : Int := x % (2 ^ w : Nat)

/-- reduce into the signed two's-complement `w`-bit range `[-2^(w-1), 2^(w-1))`: the representative of `x` modulo
    `2^w` in that range (`Int.bmod` is exactly `BitVec.toInt ∘ BitVec.ofInt w`) -/
def wrapS (w : Nat) (x : Int) : Int := Int.bmod x (2 ^ w)

/-- representable as a signed `w`-bit integer -/
def inS (w : Nat) (x : Int) : Prop := -(2 ^ (w - 1) : Nat) ≤ x ∧ x < (2 ^ (w - 1) : Nat)

/-- representable as an unsigned `w`-bit integer -/
def inU (w : Nat) (x : Int) : Prop := 0 ≤ x ∧ x < (2 ^ w : Nat)

instance (w : Nat) (x : Int) : Decidable (inS w x) := inferInstanceAs (Decidable (_ ∧ _))
instance (w : Nat) (x : Int) : Decidable (inU w x) := inferInstanceAs (Decidable (_ ∧ _))

/-- the wrap of an integer dtype (`signed`, `bits`) -/
def wrapOf (signed : Bool) (w : Nat) : Int → Int := if signed then wrapS w else wrapU w

/-! ## sequential accumulation -/

/-- a machine accumulator: left fold that wraps after every step -/
def accW (wrap : Int → Int) (op : Int → Int → Int) (init : Int) (xs : List Int) : Int :=
  xs.foldl (fun acc x => wrap (op acc x)) init

/-- one eager engine on the members of one group (in storage order):
    `castFirst = true`  – convert every element to the accumulator dtype, accumulate there (all engines today);
    `castFirst = false` – accumulate in the input dtype, convert the result (numbagg before /repo a3da74f). -/
def engineAcc (op : Int → Int → Int) (init : Int) (castFirst : Bool) (wrapIn wrapAcc : Int → Int)
    (xs : List Int) : Int :=
  if castFirst then accW wrapAcc op init (xs.map wrapAcc) else wrapAcc (accW wrapIn op init xs)

/-- signed input of `wIn` bits, signed accumulator / result dtype of `wAcc` bits -/
def engineSum (castFirst : Bool) (wIn wAcc : Nat) (xs : List Int) : Int :=
  engineAcc (· + ·) 0 castFirst (wrapS wIn) (wrapS wAcc) xs

def engineProd (castFirst : Bool) (wIn wAcc : Nat) (xs : List Int) : Int :=
  engineAcc (· * ·) 1 castFirst (wrapS wIn) (wrapS wAcc) xs

/-- unsigned input, unsigned accumulator (`uint8 → uint64`) -/
def engineSumU (castFirst : Bool) (wIn wAcc : Nat) (xs : List Int) : Int :=
  engineAcc (· + ·) 0 castFirst (wrapU wIn) (wrapU wAcc) xs

def engineProdU (castFirst : Bool) (wIn wAcc : Nat) (xs : List Int) : Int :=
  engineAcc (· * ·) 1 castFirst (wrapU wIn) (wrapU wAcc) xs

/-- engine "flox", `sum_of_squares`: `castFirst = true` squares in the accumulator dtype (today);
    `castFirst = false` squares in the input dtype and accumulates the wrapped squares (before /repo 73517da) -/
def engineSumSq (castFirst : Bool) (wrapIn wrapAcc : Int → Int) (xs : List Int) : Int :=
  if castFirst then accW wrapAcc (· + ·) 0 (xs.map fun x => wrapAcc (wrapAcc x * wrapAcc x))
  else accW wrapAcc (· + ·) 0 (xs.map fun x => wrapAcc (wrapIn (x * x)))

/-! ## the chunked pipeline: blocks at the leaves, a wrapping combine at every inner node -/

mutual
/-- a reduction tree over the blocks: a leaf holds the members of the group inside one block (possibly none: the
    block then contributes the identity, flox's intermediate fill 0 / 1); an inner node combines ≥ 1 children -/
inductive WTree where
  | leaf (block : List Int)
  | node (ts : WForest)
inductive WForest where
  | one (t : WTree)
  | cons (t : WTree) (ts : WForest)
end

mutual
/-- all members below a tree, left to right -/
def WTree.leaves : WTree → List Int
  | .leaf b => b
  | .node ts => ts.leaves
def WForest.leaves : WForest → List Int
  | .one t => t.leaves
  | .cons t ts => t.leaves ++ ts.leaves
end

mutual
/-- `leafF` = what one block computes for the group, `comb` = how a node combines the partials of its children -/
def WTree.eval (leafF comb : List Int → Int) : WTree → Int
  | .leaf b => leafF b
  | .node ts => comb (ts.evals leafF comb)
def WForest.evals (leafF comb : List Int → Int) : WForest → List Int
  | .one t => [t.eval leafF comb]
  | .cons t ts => t.eval leafF comb :: ts.evals leafF comb
end

/-- the chunked pipeline for one group: every block runs the engine (`castFirst`, input wrap, accumulator wrap), every
    combine is a wrapping accumulation of the partials in the accumulator dtype -/
def chunkedAcc (op : Int → Int → Int) (init : Int) (castFirst : Bool) (wrapIn wrapAcc : Int → Int) (t : WTree) : Int :=
  t.eval (engineAcc op init castFirst wrapIn wrapAcc) (accW wrapAcc op init)

def chunkedSum (castFirst : Bool) (wIn wAcc : Nat) (t : WTree) : Int :=
  chunkedAcc (· + ·) 0 castFirst (wrapS wIn) (wrapS wAcc) t

def chunkedProd (castFirst : Bool) (wIn wAcc : Nat) (t : WTree) : Int :=
  chunkedAcc (· * ·) 1 castFirst (wrapS wIn) (wrapS wAcc) t

def chunkedSumU (castFirst : Bool) (wIn wAcc : Nat) (t : WTree) : Int :=
  chunkedAcc (· + ·) 0 castFirst (wrapU wIn) (wrapU wAcc) t

def chunkedProdU (castFirst : Bool) (wIn wAcc : Nat) (t : WTree) : Int :=
  chunkedAcc (· * ·) 1 castFirst (wrapU wIn) (wrapU wAcc) t

/-! ## building the tree dask builds (used by the driver) -/

/-- split `xs` into consecutive parts of the given sizes (`none` if the sizes do not add up to the length) -/
def splitSizes : List Nat → List Int → Option (List (List Int))
  | [], [] => some []
  | [], _ :: _ => none
  | n :: ns, xs =>
    if xs.length < n then none
    else (splitSizes ns (xs.drop n)).map fun r => xs.take n :: r

/-- a non-empty list of trees as a forest -/
def WForest.ofList (t : WTree) : List WTree → WForest
  | [] => .one t
  | u :: us => .cons t (WForest.ofList u us)

/-- one level of dask's tree reduction: adjacent groups of `k` become one node -/
def groupLevel (k : Nat) (ts : List WTree) (fuel : Nat) : List WTree :=
  match fuel, ts with
  | 0, _ => ts
  | _, [] => []
  | fuel + 1, t :: rest =>
    WTree.node (WForest.ofList t (rest.take (k - 1))) :: groupLevel k (rest.drop (k - 1)) fuel

/-- repeat until one tree is left (`k ≥ 2`; the last level is always a combine node, as in `dask.array.reduction`) -/
def treeReduce (k : Nat) (ts : List WTree) (fuel : Nat) : Option WTree :=
  match fuel, ts with
  | 0, _ => none
  | _, [] => none
  | fuel + 1, t :: rest =>
    if rest.length < k then some (.node (WForest.ofList t rest))
    else treeReduce k (groupLevel k (t :: rest) (rest.length + 1)) fuel

end Flox.IntWidth
