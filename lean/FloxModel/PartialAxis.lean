/-
  Partial-axis reductions and batch dimensions (property C08).

  Model of what `flox.core.groupby_reduce` does when `axis` names a subset of the label dims, and of the leading
  (batch) dims of the value array that the labels do not cover:

  (a) metadata: `normalize_axis_tuple`, `_move_reduce_dims_to_end` (order = kept dims ascending ++ axis_, which is sorted),
      the `axis_` handed to `chunk_reduce` / `dask_groupby_agg`, result shapes of the eager path
      (`chunk_reduce`: `array.shape[:-nax] + (1,)*(nax-1) + (G,)`, `_squeeze_results`) and of the graph
      (`dask_groupby_agg`: `out_inds = inds[:-len(axis)] + (inds[-1],)`), and the two places where the chunked code
      depends on the *order* of `axis`: `_simple_combine` (`axis[:-1] + (DUMMY_AXIS,)`) and
      `_collapse_blocks_along_axes` (`((1,) * (len(axis) - 1),)`).
  (b) values: after the move the value array is `lead × kept × reduced`; `chunk_reduce` collapses the reduced dims
      (`_collapse_axis`), offsets the integer codes per kept index (`offset_labels`: `c + r·G`, `-1` preserved),
      replaces `-1` by the sentinel `size`, calls the grouped kernel once per batch row on `R·N` elements with
      `R·G (+1)` slots, drops the sentinel slot, reshapes to `lead × kept × G`; `_finalize_results` masks the slots
      whose count is below `min_count` (forced to 1 when `nax < by.ndim`) with the user's fill.

  The specification (`specRun`) is written from the property only: for every index of the kept dims (ascending,
  C order) gather the slice by index arithmetic on the *original* arrays and apply the 1-D `Spec.reduce`.
-/
import FloxModel.Entry

namespace Flox
namespace PartialAxis

/-! ## (a) metadata -/

def normAxis1 (ndim : Nat) (a : Int) : Option Nat :=
  if 0 ≤ a ∧ a < (ndim : Int) then some a.toNat
  else if -(ndim : Int) ≤ a ∧ a < 0 then some (a + (ndim : Int)).toNat
  else none

/-- `numpy.normalize_axis_tuple(axis, ndim)`; `none` = AxisError / "repeated axis" (both are `ValueError`s) -/
def normalizeAxes (ndim : Nat) (axis : List Int) : Option (List Nat) :=
  match axis.mapM (normAxis1 ndim) with
  | some xs => if xs.Nodup then some xs else none
  | none => none

/-- dims of `range ndim` that are not reduced, ascending -/
def keptDims (ndim : Nat) (axes : List Nat) : List Nat :=
  (List.range ndim).filter fun d => !axes.contains d

/-- `_move_reduce_dims_to_end`: `order = tuple(ax for ax in arange(ndim) if ax not in axis) + axis` -/
def moveOrder (ndim : Nat) (axes : List Nat) : List Nat := keptDims ndim axes ++ axes

def permuteShape (shape order : List Nat) : List Nat := order.map fun d => shape.getD d 1

/-- what `groupby_reduce` decides before calling `chunk_reduce` / `dask_groupby_agg` -/
structure Entry where
  order : List Nat        -- transposition applied to the value array (identity when nothing is moved)
  byOrder : List Nat      -- transposition applied to the labels
  axes : List Nat         -- `axis_` as handed on (non-negative)
  nax : Nat
  moved : Bool
deriving Repr, DecidableEq

def insertNat (x : Nat) : List Nat → List Nat
  | [] => [x]
  | y :: ys => if x ≤ y then x :: y :: ys else y :: insertNat x ys

def sortNat (xs : List Nat) : List Nat := xs.foldr insertNat []

/-- after normalisation: if `nax < by.ndim` move the reduced dims last (in the order given) and renumber `axis_`
    to the last `nax` dims; otherwise `axis_` stays exactly as the user gave it. -/
def entryOf (ndim byNdim : Nat) (axes : List Nat) : Entry :=
  let lead := ndim - byNdim
  let nax := axes.length
  if nax < byNdim then
    { order := moveOrder ndim axes, byOrder := moveOrder byNdim (axes.map (· - lead)),
      axes := (List.range nax).map (· + (ndim - nax)), nax := nax, moved := true }
  else
    { order := List.range ndim, byOrder := List.range byNdim, axes := axes, nax := nax, moved := false }

/-- `axis=None` ↦ all label dims; else `tuple(sorted(normalize_axis_tuple(axis, ndim)))` (the order in which the
    reduced axes are named is dropped right here); axes outside the label dims are outside the property's
    quantifier (not modelled) -/
def entry (ndim byNdim : Nat) (axis : Option (List Int)) : Except String Entry :=
  let lead := ndim - byNdim
  let axes? : Option (List Nat) := match axis with
    | none => some ((List.range byNdim).map (· + lead))
    | some a => (normalizeAxes ndim a).map sortNat
  match axes? with
  | none => .error "ValueError"
  | some axes =>
    if axes.any (· < lead) then .error "unsupported:axis-outside-label-dims"
    else .ok (entryOf ndim byNdim axes)

/-- shape of the eager result: `chunk_reduce` gives `array.shape[:-nax] + (1,)*(nax-1) + (G,)` (of the moved
    array), `_squeeze_results` removes the `nax-1` dummies -/
def eagerOutShape (shape : List Nat) (e : Entry) (G : Nat) : List Nat :=
  (permuteShape shape e.order).take (shape.length - e.nax) ++ [G]

/-- for every output axis but the last: which axis of the user's array it is -/
def outDims (ndim : Nat) (e : Entry) : List Nat := e.order.take (ndim - e.nax)

inductive Method where
  | mapreduce | cohorts | blockwise
deriving Repr, DecidableEq

/-- The order-dependent step of the graph (`dask_groupby_agg`).  `none` = the graph is built and computes.
    map-reduce / cohorts with `_simple_combine`: the stacked intermediates have `ndim+1` dims (dummy axis at `-2`,
    i.e. at `ndim-1`); the combine runs along `axis[:-1] + (-2,)`, which repeats an axis exactly when the last array
    dim is in `axis_` but is not its last entry → `ValueError: duplicate value in 'axis'`.  (Since `axis_` is sorted
    at the entry this can no longer happen: `C08.chunked_graph_ok`.)  The blockwise plan collapses the blocks of the
    reduced axes with one dummy axis per extra reduced axis and has no order-dependent step. -/
def chunkedError (ndim : Nat) (e : Entry) (m : Method) : Option String :=
  match m with
  | .blockwise => none
  | _ => if e.axes.dropLast.contains (ndim - 1) then some "ValueError" else none

/-- announced shape of the lazy result: `out_inds = inds[:-len(axis)] + (inds[-1],)` with the group chunks -/
def chunkedOutShape (shape : List Nat) (e : Entry) (G : Nat) : List Nat :=
  (permuteShape shape e.order).take (shape.length - e.axes.length) ++ [G]

/-! ## N-D index arithmetic on flat (C order) data -/

def prod (xs : List Nat) : Nat := xs.foldl (· * ·) 1

/-- C-order strides -/
def strides : List Nat → List Nat
  | [] => []
  | _ :: ds => prod ds :: strides ds

/-- all multi-indices of a shape in C order -/
def allIdx : List Nat → List (List Nat)
  | [] => [[]]
  | d :: ds => (List.range d).flatMap fun i => (allIdx ds).map (i :: ·)

def dot (xs ys : List Nat) : Nat := (List.zipWith (· * ·) xs ys).foldl (· + ·) 0

/-- `arr.transpose(order)` on flat data: element `j` (multi-index in the new shape) comes from the source
    multi-index `i` with `i[order[k]] = j[k]` -/
def transposeFlat {α} [Inhabited α] (shape order : List Nat) (data : List α) : List α :=
  let st := strides shape
  let st' := order.map fun d => st.getD d 0
  let arr := data.toArray
  (allIdx (permuteShape shape order)).map fun j => arr.getD (dot j st') default

/-- split a flat list into consecutive rows of length `n` (as many as fit `count`) -/
def rowsOf {α} (count n : Nat) (xs : List α) : List (List α) := splitBy (List.replicate count n) xs

/-! ## (b) values: `chunk_reduce` on `lead × kept × reduced` -/

/-- `offset_labels` for the row with index `r`: `c + r·G`, `-1` preserved -/
def offsetCode (G r : Nat) (c : Int) : Int := if c = -1 then -1 else c + (r : Int) * (G : Int)

/-- `offset_labels` on the rows `r0, r0+1, …` of the collapsed labels -/
def offsetRowsFrom (G : Nat) : Nat → List (List Int) → List (List Int)
  | _, [] => []
  | r, row :: rest => row.map (offsetCode G r) :: offsetRowsFrom G (r + 1) rest

/-- `_factorize_single` with a `RangeIndex(G)`: codes above the range become `-1` -/
def clampCode (G : Nat) (c : Int) : Int := if c > (G : Int) - 1 then -1 else c

/-- one intermediate column of `chunk_reduce`, for a grouped kernel `E codes vals size` with fill `fv`.
    `rows` : the collapsed integer codes, one list per kept index (R lists of N codes);
    `batches` : for every index of the batch dims, the R value rows.
    Result: flat `B × R × G`. -/
def coreColWith (E : List Int → List Val → Nat → List Val) (fv : Val) (G : Nat) (offset : Bool)
    (rows : List (List Int)) (batches : List (List (List Val))) : List Val :=
  let rows := rows.map (·.map (clampCode G))
  let off := if offset then (offsetRowsFrom G 0 rows).flatten else rows.flatten
  let size0 := if offset then rows.length * G else G
  let hasnan := off.any (· == -1)
  let empty := off.all (· == -1)
  let size := if hasnan then size0 + 1 else size0
  let codes := off.map fun c => if c == -1 then (size0 : Int) else c
  if empty then List.replicate (batches.length * size0) fv
  else batches.flatMap fun vrows => (E codes vrows.flatten size).take size0

def coreCol (eng : Eng) (k : Kernel) (fv : Val) (G : Nat) (offset : Bool) (rows : List (List Int))
    (batches : List (List (List Val))) : List Val :=
  coreColWith (fun c v s => engineCall eng k c v s fv) fv G offset rows batches

/-- `_finalize_results` on flat columns: mask with the user's fill where the count is below `min_count`;
    `none` = `ValueError("Filling is required but fill_value is None.")` -/
def maskCounts (minCount : Nat) (userFill : Option Val) (vals counts : List Val) : Option (List Val) :=
  if minCount > 0 then
    let mask := counts.map (countBelow · minCount)
    if mask.any id then
      match userFill with
      | none => none
      | some f => some ((vals.zip mask).map fun (v, m) => if m then f else v)
    else some vals
  else some vals

/-- eager arg-reductions: `np.unravel_index(flat_index, array.shape)[-1]` = position within the last dim -/
def argPosition (n : Nat) (v : Val) : Val :=
  match v with
  | .fin q => if q.den = 1 ∧ 0 ≤ q.num ∧ n > 0 then Val.ofNat (q.num.toNat % n) else v
  | _ => v

/-- `_reduce_blockwise` (eager path): `chunk_reduce` with the `numpy` kernels, then `_finalize_results` -/
def eagerCore (R : Resolved) (eng : Eng) (G : Nat) (offset : Bool) (lastDim : Nat) (rows : List (List Int))
    (batches : List (List (List Val))) : Option (List Val) :=
  let cols := (R.numpy.zip R.numpyFills).map fun (k, fv) => coreCol eng k fv G offset rows batches
  let v0 := cols.headD []
  let v0 := if R.isArg then v0.map (argPosition lastDim) else v0
  if R.minCount > 0 then maskCounts R.minCount R.userFill v0 (cols.getLastD []) else some v0

/-! ## the API-level model -/

structure PRequest where
  func : String
  dkind : String
  fill : Option Val
  minCount : Option Nat
  ddof : Nat
  eng : Eng
  expected : List Rat
  shape : List Nat
  byNdim : Nat
  axis : Option (List Int)
deriving Repr

/-- the implicit `min_count` rule of `groupby_reduce`: 1 when reducing a subset of the label dims
    (or when a fill is given together with expected groups), and the NaN fill for `nansum`/`nanprod` -/
def effective (rq : PRequest) (nax : Nat) : Nat × Option Val :=
  let mc := match rq.minCount with
    | none => if nax < rq.byNdim ∨ rq.fill.isSome then 1 else 0      -- expected_groups are always given here
    | some m => m
  let fill := if mc > 0 && (rq.func = "nansum" || rq.func = "nanprod") && rq.fill.isNone then some Val.nan else rq.fill
  (mc, fill)

inductive POutcome where
  | ok (shape : List Nat) (vals : List Val)
  | err (kind : String)
  | unsupported (why : String)
deriving Repr

def resolveFor (rows : List InitRow) (rq : PRequest) (nax : Nat) : Except POutcome (Resolved × Option Val) :=
  let (mc, fill) := effective rq nax
  match findInit rows rq.func rq.dkind (fillKindOf fill) (mc > 0) with
  | none => .error (.unsupported "no-init-row")
  | some row =>
    if !row.ok then .error (.err row.err) else
    match row.resolve fill mc rq.ddof with
    | none => .error (.unsupported "unresolved-row")
    | some R => .ok (R, fill)

/-- eager `groupby_reduce(array, by, func, axis=…, expected_groups=…, fill_value=…)` -/
def run (rows : List InitRow) (rq : PRequest) (labels : List Key) (vals : List Val) : POutcome :=
  let ndim := rq.shape.length
  if rq.byNdim = 0 ∨ rq.byNdim > ndim ∨ rq.shape.any (· = 0) ∨ rq.expected.isEmpty then .unsupported "shape" else
  match entry ndim rq.byNdim rq.axis with
  | .error e => if e.startsWith "unsupported" then .unsupported e else .err e
  | .ok e =>
    match resolveFor rows rq e.nax with
    | .error o => o
    | .ok (R, _) =>
      let G := rq.expected.length
      let (_, codes) := factorizeLabels labels (some rq.expected) true
      let byShape := rq.shape.drop (ndim - rq.byNdim)
      let tShape := permuteShape rq.shape e.order
      let tvals := transposeFlat rq.shape e.order vals
      let tcodes := transposeFlat byShape e.byOrder codes
      let B := prod (tShape.take (ndim - rq.byNdim))
      let Rk := prod ((tShape.drop (ndim - rq.byNdim)).take (rq.byNdim - e.nax))
      let N := prod (tShape.drop (ndim - e.nax))
      let rowsC := rowsOf Rk N tcodes
      let batches := (rowsOf B (Rk * N) tvals).map (rowsOf Rk N)
      let offset := decide (e.nax < rq.byNdim)
      match eagerCore R rq.eng G offset (tShape.getLastD 1) rowsC batches with
      | none => .err "ValueError"
      | some vs => .ok (eagerOutShape rq.shape e G) vs

/-- what the model predicts for chunked input, given the method the real code resolved: the error of the
    order-dependent graph step, otherwise the eager values (C02/C03: chunked = eager on every slice) with the
    announced shape. -/
def runChunked (rows : List InitRow) (rq : PRequest) (m : Method) (labels : List Key) (vals : List Val) : POutcome :=
  match entry rq.shape.length rq.byNdim rq.axis with
  | .error e => if e.startsWith "unsupported" then .unsupported e else .err e
  | .ok e =>
    -- `_grouped_combine` on offset groups (first/last family on data without NaN): not modelled (finding C08-F3)
    if e.moved ∧ (rq.func = "nanfirst" ∨ rq.func = "nanlast") ∧ ¬ (rq.dkind = "f8" ∨ rq.dkind = "f4") then
      .unsupported "grouped-combine-on-offset-groups"
    else match chunkedError rq.shape.length e m with
      | some err => .err err
      | none =>
        match run rows rq labels vals with
        | .ok _ vs => .ok (chunkedOutShape rq.shape e rq.expected.length) vs
        | o => o

/-! ## specification -/

/-- gather the 1-D slice at kept multi-index `kidx`: all indices of the reduced dims (ascending dims, C order) -/
def sliceFlatIdx (shape : List Nat) (kept red : List Nat) (kidx : List Nat) : List Nat :=
  let st := strides shape
  let base := dot kidx (kept.map fun d => st.getD d 0)
  (allIdx (red.map fun d => shape.getD d 1)).map fun ridx => base + dot ridx (red.map fun d => st.getD d 0)

/-- The property: result shape = kept dims (ascending) ++ [G]; the entry at kept index `i` and group `g` is the
    1-D grouped reduction (`Spec.reduce`) of the slice at `i`; batch dims are kept dims on which the labels do
    not depend. -/
def specRun (rq : PRequest) (labels : List Key) (vals : List Val) : POutcome :=
  let ndim := rq.shape.length
  if rq.byNdim = 0 ∨ rq.byNdim > ndim ∨ rq.shape.any (· = 0) ∨ rq.expected.isEmpty then .unsupported "shape" else
  let lead := ndim - rq.byNdim
  let axes? : Option (List Nat) := match rq.axis with
    | none => some ((List.range rq.byNdim).map (· + lead))
    | some a => normalizeAxes ndim a
  match axes? with
  | none => .err "ValueError"
  | some axes =>
    if axes.any (· < lead) then .unsupported "axis-outside-label-dims" else
    match kernelWithDdof rq.ddof rq.func with
    | none => .unsupported "no-kernel"
    | some k =>
      let (mc, fill) := effective rq axes.length
      let hack := (rq.func = "nanmin" || rq.func = "nanmax") && mc = 0
      let fill := if hack && fill.isNone then some Val.nan else fill
      let mc := if hack then 1 else mc
      let G := rq.expected.length
      let (_, codes) := factorizeLabels labels (some rq.expected) true
      let kept := keptDims ndim axes
      let red := sortNat axes
      let byShape := rq.shape.drop lead
      let va := vals.toArray
      let ca := codes.toArray
      let keptShape := kept.map fun d => rq.shape.getD d 1
      let slices := (allIdx keptShape).map fun kidx =>
        let vIdx := sliceFlatIdx rq.shape kept red kidx
        -- the labels do not have the batch dims: drop them from the index
        let cIdx := sliceFlatIdx byShape ((kept.filter (· ≥ lead)).map (· - lead)) (red.map (· - lead)) (kidx.drop (kept.filter (· < lead)).length)
        Spec.reduce k mc fill (cIdx.map fun i => ca.getD i (-1)) (vIdx.map fun i => va.getD i Val.nan) G
      match slices.mapM id with
      | none => .err "ValueError"
      | some rs => .ok (keptShape ++ [G]) rs.flatten

end PartialAxis
end Flox
