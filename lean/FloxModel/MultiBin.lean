/-
  Multi-variable grouping and binning (property C07): model of

  * `_convert_expected_groups_to_index`  (edges -> `IntervalIndex.from_breaks`, `sort_values` of an IntervalIndex),
  * `_factorize_single` for an `IntervalIndex` (`np.digitize(flat, bins, right)`, `idx -= 1`, the `within_bins`
    mask, the gap mask for a non-contiguous IntervalIndex) and for categorical groupers (re-using `factorizeLabels` / `factorizeKeys`),
  * `_ravel_factorized`  (`np.ravel_multi_index(..., mode="wrap")`, then `-1` restored where any code is `-1`),
  * `factorize_` / `_factorize_multiple` (eager: whole arrays; dask labels: block by block through
    `_lazy_factorize_wrapper` against the globally found groups),
  * NumPy broadcasting of grouper arrays whose shapes differ by size-1 axes,
  * the final reshape of the flat group axis to `grp_shape` in `groupby_reduce` (C order: entry `(i, j, …)` of the
    result is the flat slot `ravelWrap [i, j, …] grp_shape`).

  The specification side (`inInterval`, `cutCode`, `tupleMembers`, `specMulti`) is written from the documented
  semantics of `pandas.cut` and of grouping by a tuple key; it does not look at flox.
-/
import FloxModel.Entry

namespace Flox

/-! ### comparisons on extended numbers (IEEE: every comparison with NaN is false) -/

/-- `a <= b` -/
def Val.le (a b : Val) : Bool := Val.lt a b || (a == b && !a.isNaN)

/-! ### `np.digitize` and the bin code of `_factorize_single` -/

/-- `bins.max()` -/
def listMax : List Rat → Rat
  | [] => 0
  | a :: rest => rest.foldl (fun m e => if m ≤ e then e else m) a

/-- `np.digitize(x, bins, right)` for increasing `bins`, from its definition:
    `right=False`: the `i` with `bins[i-1] <= x < bins[i]`  = number of edges `<= x`;
    `right=True` : the `i` with `bins[i-1] < x <= bins[i]`  = number of edges `< x`;
    NaN sorts past the last edge (`len(bins)`). -/
def digitize (bins : List Rat) (right : Bool) (x : Val) : Nat :=
  match x with
  | .nan => bins.length
  | _ => if right then bins.countP (fun e => Val.lt (.fin e) x) else bins.countP (fun e => Val.le (.fin e) x)

/-- one element of `_factorize_single`, IntervalIndex branch (`len(bins) > 1`):
    `idx = np.digitize(flat, bins, right) - 1`; `within_bins = flat <= bins.max() if right else flat < bins.max()`;
    `idx[~within_bins] = -1` -/
def binCode (bins : List Rat) (right : Bool) (x : Val) : Int :=
  let idx : Int := (digitize bins right x : Int) - 1
  let within := if right then Val.le x (.fin (listMax bins)) else Val.lt x (.fin (listMax bins))
  if within then idx else -1

/-! ### expected groups -> IntervalIndex -/

/-- `pd.IntervalIndex.from_breaks(edges)`: consecutive pairs -/
def intervalsOfBreaks : List Rat → List (Rat × Rat)
  | a :: b :: rest => (a, b) :: intervalsOfBreaks (b :: rest)
  | _ => []

inductive Closed where
  | left | right | both | neither
deriving DecidableEq, Repr, Inhabited

def Closed.ofString? : String → Option Closed
  | "left" => some .left | "right" => some .right | "both" => some .both | "neither" => some .neither | _ => none

/-- `IntervalIndex.closed_right` -/
def Closed.closedRight : Closed → Bool
  | .right | .both => true
  | _ => false

def insertIv (x : Rat × Rat) : List (Rat × Rat) → List (Rat × Rat)
  | [] => [x]
  | y :: ys => if x.1 < y.1 ∨ (x.1 = y.1 ∧ x.2 ≤ y.2) then x :: y :: ys else y :: insertIv x ys

/-- `IntervalIndex.sort_values()`: by left edge, then right edge -/
def sortIntervals (ivs : List (Rat × Rat)) : List (Rat × Rat) := ivs.foldr insertIv []

/-- `np.concatenate([expect.left, expect.right[[-1]]])` (the caller has checked that `ivs` is not empty) -/
def binsOf (ivs : List (Rat × Rat)) : List Rat :=
  ivs.map (·.1) ++ (match ivs.getLast? with | some iv => [iv.2] | none => [])

/-- `np.array_equal(rights[:-1], bins[1:-1])`: every interval ends where the next one starts -/
def contiguousB : List (Rat × Rat) → Bool
  | a :: b :: rest => a.2 == b.1 && contiguousB (b :: rest)
  | _ => true

/-- the gap mask of `_factorize_single`: among the elements with `idx >= 0`, those beyond the right edge of their
    interval (`flat > rights[idx]` if closed on the right, `flat >= rights[idx]` otherwise) are dropped -/
def gapMask (ivs : List (Rat × Rat)) (right : Bool) (x : Val) (c : Int) : Int :=
  if c < 0 then c
  else match ivs[c.toNat]? with
    | some iv => if (if right then Val.lt (.fin iv.2) x else Val.le (.fin iv.2) x) then -1 else c
    | none => c

/-- one element of `_factorize_single` for an IntervalIndex `ivs` (not empty): digitize against the left edges plus the
    last right edge, then – only when the intervals are not contiguous – the gap mask -/
def binCodeIv (ivs : List (Rat × Rat)) (right : Bool) (x : Val) : Int :=
  let c := binCode (binsOf ivs) right x
  if contiguousB ivs then c else gapMask ivs right x c

def nonDecreasing : List Rat → Bool
  | a :: b :: rest => decide (a ≤ b) && nonDecreasing (b :: rest)
  | _ => true

def nonIncreasing : List Rat → Bool
  | a :: b :: rest => decide (b ≤ a) && nonIncreasing (b :: rest)
  | _ => true

def strictlyIncreasing : List Rat → Bool
  | a :: b :: rest => decide (a < b) && strictlyIncreasing (b :: rest)
  | _ => true

/-- how a grouper is described after `_validate_expected_groups` (before `_convert_expected_groups_to_index`) -/
inductive Grouper where
  | cat (expected : Option (List Rat))                    -- categorical; `expected_groups` entry or None
  | edges (breaks : List Rat)                             -- `isbin=True` with raw edges
  | intervals (ivs : List (Rat × Rat)) (closed : Closed)  -- a `pd.IntervalIndex`
deriving Repr, Inhabited

/-- the labels returned for one grouper -/
inductive GroupLabels where
  | cats (gs : List Key)
  | ivs (ivs : List (Rat × Rat)) (closed : Closed)
deriving Repr, DecidableEq, Inhabited

def GroupLabels.size : GroupLabels → Nat
  | .cats gs => gs.length
  | .ivs l _ => l.length

/-- result of the conversion: `Except` carries the Python exception name -/
inductive ExpIndex where
  | none
  | cat (ex : List Rat)
  | ivs (ivs : List (Rat × Rat)) (closed : Closed)
deriving Repr, Inhabited

/-- `_convert_expected_groups_to_index` for one grouper -/
def convertExpected (g : Grouper) (sort : Bool) : Except String ExpIndex :=
  match g with
  | .cat none => .ok .none
  | .cat (some ex) => .ok (.cat (if sort then ex.mergeSort (fun a b => decide (a ≤ b)) else ex))
  | .edges breaks =>
    -- `pd.IntervalIndex.from_breaks(ex)` (closed="right"); pandas refuses a decreasing pair of breaks
    if nonDecreasing breaks then .ok (.ivs (intervalsOfBreaks breaks) .right) else .error "ValueError"
  | .intervals ivs closed => .ok (.ivs (if sort then sortIntervals ivs else ivs) closed)

def valToKey? : Val → Option Key
  | .nan => some none
  | .fin q => some (some q)
  | _ => none

/-- `_factorize_single(by, expect, sort=sort, reindex=True)`: (found groups, codes).
    `.error "unsupported …"` marks inputs outside the model (decreasing bins, ±inf categorical labels). -/
def factorizeSingle (labels : List Val) (ix : ExpIndex) (sort : Bool) : Except String (GroupLabels × List Int) :=
  match ix with
  | .ivs ivs closed =>
    if closed = .both then .error "NotImplementedError"
    else match ivs with
      | [] => .error "IndexError"                       -- `expect.right.to_numpy()[[-1]]` on an empty index
      | _ =>
        let bins := binsOf ivs
        if !(nonDecreasing bins || nonIncreasing bins) then .error "ValueError"   -- np.digitize: bins not monotonic
        else if !strictlyIncreasing bins then .error "unsupported non-increasing-bins"
        else .ok (.ivs ivs closed, labels.map (binCodeIv ivs closed.closedRight))
  | .cat ex =>
    match labels.mapM valToKey? with
    | some keys => let (gs, cs) := factorizeLabels keys (some ex) sort; .ok (.cats (gs.map some), cs)
    | none => .error "unsupported inf-label"
  | .none =>
    match labels.mapM valToKey? with
    | some keys => let (gs, cs) := factorizeLabels keys none sort; .ok (.cats (gs.map some), cs)
    | none => .error "unsupported inf-label"

/-! ### `_ravel_factorized` -/

def shapeProd : List Nat → Nat
  | [] => 1
  | d :: ds => d * shapeProd ds

/-- `np.ravel_multi_index(codes, shape, mode="wrap")` for one element: every code is wrapped into its dimension
    (so `-1` becomes `d-1`), then the C-order flat index is formed -/
def ravelWrap : List Int → List Nat → Int
  | c :: cs, d :: ds => (c % (d : Int)) * (shapeProd ds : Int) + ravelWrap cs ds
  | _, _ => 0

/-- one element of `_ravel_factorized`: the wrapped flat index, with `-1` restored where any code is `-1` -/
def ravelCode (codes : List Int) (shape : List Nat) : Int :=
  if codes.any (· == -1) then -1 else ravelWrap codes shape

/-- `np.unravel_index(i, shape)` (C order) – used for the statement of `ravel_unravel` and by the reshape -/
def unravel : Int → List Nat → List Int
  | _, [] => []
  | i, _ :: ds => i / (shapeProd ds : Int) :: unravel (i % (shapeProd ds : Int)) ds

/-- rows of a column-major table: element `e` ↦ its tuple of codes (all columns have the common length `n`) -/
def codeRowsOf (n : Nat) (cols : List (List Int)) : List (List Int) :=
  (List.range n).map fun e => cols.map fun col => col.getD e (-1)

/-! ### broadcasting -/

/-- `np.broadcast_to(a.reshape(shp), target).reshape(-1)` for row-major data; `shp` and `target` have the same
    number of axes and every axis of `shp` equals the target's or is 1 -/
def bcast {α} : List Nat → List Nat → List α → List α
  | s :: ss, t :: ts, xs =>
    if s = t then ((splitBy (List.replicate s (shapeProd ss)) xs).map (bcast ss ts)).flatten
    else (List.replicate t (bcast ss ts xs)).flatten
  | _, _, xs => xs

/-- the common shape of arrays that differ only by size-1 axes -/
def bcastShape : List (List Nat) → List Nat
  | [] => []
  | s :: rest => rest.foldl (fun acc t => List.zipWith Nat.max acc t) s

/-! ### `factorize_` (eager) and `_factorize_multiple` (dask labels) -/

structure Factorized where
  groups : List GroupLabels
  shape : List Nat            -- grp_shape
  codes : List Int            -- flat group index per element of the broadcast label array (`-1` = dropped)
deriving Repr, Inhabited

/-- `factorize_(by, axes=(), fastpath=True, expected_groups, reindex=True, sort)` on whole arrays.
    `bys` = (shape, labels) per grouper; the codes come out in the broadcast shape, flattened. -/
def factorizeEager (bys : List (List Nat × List Val)) (ixs : List ExpIndex) (sort : Bool) : Except String Factorized := do
  let results ← (bys.zip ixs).mapM fun ((_, labels), ix) => factorizeSingle labels ix sort
  let groups := results.map (·.1)
  let shape := groups.map GroupLabels.size
  let target := bcastShape (bys.map (·.1))
  if bys.length > 1 then
    if shape.any (· == 0) then
      -- `ngroups == 0`: some grouper has no group at all, every element is dropped
      .ok { groups := groups, shape := shape, codes := List.replicate (shapeProd target) (-1) }
    else
      let cols := (bys.zip results).map fun ((shp, _), (_, cs)) => bcast shp target cs
      .ok { groups := groups, shape := shape, codes := (codeRowsOf (shapeProd target) cols).map (ravelCode · shape) }
  else
    match results with
    | [(_, cs)] => .ok { groups := groups, shape := shape, codes := cs }
    | _ => .error "unsupported no-grouper"

/-- `_factorize_multiple(..., any_by_dask=True)` for 1-D labels: found groups are the expected groups, or – for a
    NumPy grouper without expected groups – `pd.unique` of the whole array with NaN dropped, sorted when `sort`;
    every block is factorized on its own by `_lazy_factorize_wrapper` *against the found groups* and the per-block
    codes are combined by `_ravel_factorized` (also for a single grouper). -/
def factorizeLazy (chunks : List Nat) (bys : List (List Val)) (ixs : List ExpIndex) (sort : Bool) :
    Except String Factorized := do
  let found ← (bys.zip ixs).mapM fun (labels, ix) =>
    match ix with
    | .none => match labels.mapM valToKey? with
      | some keys => .ok (ExpIndex.cat (factorizeLabels keys none sort).1)
      | none => .error "unsupported inf-label"
    | ix => .ok ix
  let groups := found.map fun ix =>
    match ix with
    | .cat ex => GroupLabels.cats (ex.map some)
    | .ivs ivs closed => GroupLabels.ivs ivs closed
    | .none => GroupLabels.cats []
  let shape := groups.map GroupLabels.size
  let cols ← (bys.zip found).mapM fun (labels, ix) => do
    let blocks ← (splitBy chunks labels).mapM fun blk => (factorizeSingle blk ix sort).map (·.2)
    pure blocks.flatten
  if shape.any (· == 0) then .error "ValueError"     -- np.ravel_multi_index inside the block function
  else
    let n := (bys.headD []).length
    .ok { groups := groups, shape := shape, codes := (codeRowsOf n cols).map (ravelCode · shape) }

/-! ### specification: `pandas.cut` and tuple-key grouping -/

/-- membership of `x` in the interval `iv` (`closedRight`: `(l, r]`, otherwise `[l, r)`); false for NaN -/
def inInterval (closedRight : Bool) (iv : Rat × Rat) (x : Val) : Bool :=
  if closedRight then Val.lt (.fin iv.1) x && Val.le x (.fin iv.2)
  else Val.le (.fin iv.1) x && Val.lt x (.fin iv.2)

/-- `pandas.cut(x, IntervalIndex).codes`: the position of the interval that contains `x`; `-1` when no interval
    does (outside all bins, NaN) -/
def cutCode (ivs : List (Rat × Rat)) (closedRight : Bool) (x : Val) : Int :=
  match ivs.findIdx? (fun iv => inInterval closedRight iv x) with
  | some i => (i : Int)
  | none => -1

/-- members of the group with code tuple `idx`: the elements whose row of codes is exactly `idx`, original order -/
def tupleMembers (idx : List Int) : List (List Int) → List Val → List Val
  | r :: rs, v :: vs => if r = idx then v :: tupleMembers idx rs vs else tupleMembers idx rs vs
  | _, _ => []

/-- all index tuples of a shape in C order -/
def allIndices : List Nat → List (List Int)
  | [] => [[]]
  | d :: ds => (List.range d).flatMap fun (i : Nat) => (allIndices ds).map fun rest => (i : Int) :: rest

/-- specification code of one label for one grouper: position of the label among the requested (or present,
    ascending) categories, or `pandas.cut` for bins -/
def specCode (g : GroupLabels) (x : Val) : Int :=
  match g with
  | .ivs ivs closed => cutCode ivs closed.closedRight x
  | .cats gs =>
    match x with
    | .fin q => match gs.findIdx? (· == some q) with
      | some i => (i : Int)
      | none => -1
    | _ => -1

/-- the labels the property promises for one grouper: the requested categories (ascending when `sort`), the
    categories present (ascending, or in order of first appearance), or the requested intervals -/
def specGroupLabels (g : Grouper) (labels : List Val) (sort : Bool) : GroupLabels :=
  match g with
  | .cat (some ex) => .cats ((if sort then ex.mergeSort (fun a b => decide (a ≤ b)) else ex).map some)
  | .cat none =>
    let pres := labels.filterMap fun x => match x with | .fin q => some q | _ => none
    .cats ((if sort then uniqSorted pres else uniqFirst pres).map some)
  | .edges breaks => .ivs (intervalsOfBreaks breaks) .right
  | .intervals ivs closed => .ivs (if sort then sortIntervals ivs else ivs) closed

/-- the code tuple the specification assigns to one element (one label per grouper) -/
def specRow (groups : List GroupLabels) (row : List Val) : List Int :=
  (groups.zip row).map fun (g, x) => specCode g x

/-- tuple-key grouping: the result has one axis per grouper; entry `idx` is `slot` applied to exactly the elements
    whose label tuple has codes `idx` (an element with a missing / unrequested / out-of-bins label has a `-1` in its
    tuple and so belongs to no entry).  Flat, C order.  `slot` is `Spec.slot k minCount fill` (NumPy on the members,
    the user's fill for an empty or under-populated entry, `none` = unspecified when no fill was given). -/
def specMulti (slot : List Val → Option Val) (groups : List GroupLabels) (labelRows : List (List Val))
    (vals : List Val) : List (Option Val) :=
  let rows := labelRows.map (specRow groups)
  (allIndices (groups.map GroupLabels.size)).map fun idx => slot (tupleMembers idx rows vals)

/-- the slot function used by `groupby_reduce` (same conventions as `specRun` for one grouper) -/
def specSlotFor (func : String) (mc : Nat) (fill : Option Val) : Option (List Val → Option Val) :=
  match kernelWithDdof 0 func with
  | none => none
  | some k =>
    let hack := (func = "nanmin" || func = "nanmax") && mc = 0
    let fill := if hack && fill.isNone then some Val.nan else fill
    let mc := if hack then 1 else mc
    some (Spec.slot k mc fill)

/-- rows of labels: element `e` ↦ its tuple of labels (after broadcasting every grouper to the common shape) -/
def labelRowsOf (n : Nat) (cols : List (List Val)) : List (List Val) :=
  (List.range n).map fun e => cols.map fun col => col.getD e Val.nan

/-- `groupby_reduce` after `_factorize_multiple`: the flat codes are the labels of a single grouper whose expected
    groups are `RangeIndex(prod grp_shape)`; `min_count` follows the rule of `groupby_reduce`
    (`fill_value is not None and expected_groups is not None` ↦ 1).  The flat result is then reshaped to `grp_shape`. -/
def runMulti (rows : List InitRow) (rq : Request) (provided : Bool) (plan : Plan) (chunks : List Nat)
    (fz : Factorized) (vals : List Val) : Outcome :=
  let n := shapeProd fz.shape
  let mc : Nat := match rq.minCount with
    | some m => m
    | none => if rq.fill.isSome && provided then 1 else 0
  let rq' : Request := { rq with expected := some ((List.range n).map fun (i : Nat) => (i : Rat)),
                                  minCount := some mc, known := true }
  run rows rq' plan chunks (fz.codes.map fun (c : Int) => some (c : Rat)) vals

end Flox
