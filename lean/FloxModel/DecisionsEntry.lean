/-
  C19 model, second part: `_choose_engine`, the full configuration cell, `validate` (entry guards + `core` + engine),
  the blockwise refusal check, and the row types of the generated tables.  (Separate from `FloxModel/Decisions.lean` so
  that the exhaustive kernel evaluations over `core` in `FloxProofs/DecisionsCore.lean` are not re-run when only this
  part changes.)
-/
import FloxModel.Decisions

namespace Flox.Decisions

/-! ### `_choose_engine` -/

def chooseEngine (k : FuncKind) (countMask sorted byDask dtypeGiven hasNumbagg : Bool) : Engine :=
  -- `countMask`: a positive `min_count` is in force, so `nanlen` was appended to the chunk functions (if there are any)
  if k.quantileLike then .flox
  else if hasNumbagg && (k.isAnyAll || (!k.isArg && (k.nanSkipping || (countMask && !k.chunkNone)) && !dtypeGiven)) then .numbagg
  else if !k.isArg && (!byDask && sorted) then .flox
  else .numpy

structure Cell extends CoreCell where
  fk : FuncKind            -- `kind = fk.cls`
  qGiven : Bool
  engine : Option Engine
  dtypeGiven : Bool
  dtypeInt : Bool          -- the `dtype=` given is an integer type (`np.dtype(dtype).kind in "iu"`)
  countMask : Bool         -- resolved `min_count > 0` (fill_value with expected_groups, or a subset of the label axes)
  sorted : Bool            -- `_issorted` of the integer codes handed to `_choose_engine`
  hasNumbagg : Bool
deriving Repr, Inhabited

structure Plan where
  method : Option Method
  blockwise : Option Bool
  engine : Engine
deriving DecidableEq, Repr, Inhabited

/-- the guards before `_validate_reindex` (engine / dtype / q) -/
def entryGuards (k : FuncKind) (engine : Option Engine) (dtypeGiven dtypeInt qGiven byDask arrDask : Bool) : Res Unit :=
  if engine = some .flox && k.isArg then .err .notImplemented
  else if engine = some .numbagg && dtypeGiven then .err .notImplemented
  -- arg-reductions return integer positions: a non-integer `dtype=` is refused
  else if k.isArg && dtypeGiven && !dtypeInt then .err .valueError
  else if k.needsQ && !qGiven then .err .valueError
  else if engine = some .numbagg && k.isArg && (byDask || arrDask) then .err .notImplemented
  else .ok ()

def engineOf (c : Cell) : Engine :=
  match c.engine with
  | some e => e
  | none => chooseEngine c.fk c.countMask c.sorted c.byDask c.dtypeGiven c.hasNumbagg

def validate (c : Cell) : Res Plan :=
  (entryGuards c.fk c.engine c.dtypeGiven c.dtypeInt c.qGiven c.byDask c.arrDask).bind fun _ =>
  (core c.toCoreCell).bind fun (m, b) => .ok { method := m, blockwise := b, engine := engineOf c }

/-! ### method="blockwise": the refusal of inputs whose groups span several blocks -/

/-- first occurrences, in order (`pd.unique`) -/
def dedup : List Int → List Int
  | [] => []
  | x :: xs => x :: (dedup xs).filter (· ≠ x)

def nodupB : List Int → Bool
  | [] => true
  | x :: xs => !xs.contains x && nodupB xs

/-- `groups_` returned by the blockwise plan: the distinct codes of every block, concatenated -/
def blockwiseGroups (blocks : List (List Int)) : List Int := (blocks.map dedup).flatten

/-- core.py 2945-2953: a repeated `-1` (missing label) is dropped first, then any repeated code is refused -/
def blockwiseRefused (blocks : List (List Int)) : Bool :=
  let g := blockwiseGroups blocks
  let g' := if (g.filter (· = -1)).length > 1 then g.filter (· ≠ -1) else g
  !nodupB g'

/-! ### rows of the generated tables -/

structure FeatureRow where
  name : String
  kind : FuncKind
  isArg : Bool
  isFirstLast : Bool
  strictFirstLast : Bool
  chunkNone : Bool
  needsQ : Bool
deriving DecidableEq, Repr

structure ValidateReindexRow where
  kind : FuncKind
  reindex : Option Bool
  method : Option Method
  expected : Bool
  byDask : Bool
  arrDask : Bool
  isFloat : Bool
  result : Res (Option Bool)
deriving DecidableEq, Repr

structure ChooseMethodRow where
  method : Option Method
  preferred : Method
  chunkNone : Bool
  naxEqNdim : Bool
  isArg : Bool
  result : Res Method
deriving DecidableEq, Repr

structure ChooseEngineRow where
  name : String
  kind : FuncKind
  countMask : Bool
  sorted : Bool
  byDask : Bool
  dtypeGiven : Bool
  hasNumbagg : Bool
  engine : Engine
deriving DecidableEq, Repr

structure SiteRow where
  file : String
  function : String
  kind : String
  exc : String
deriving DecidableEq, Repr

end Flox.Decisions
