/-
  Specification side: what the properties say `groupby_reduce` must return, written from NumPy's
  semantics only (no flox internals).  `specReduce` is the right-hand side of C01/C02/C05.
-/
import FloxModel.Kernels

namespace Flox
namespace Spec

/-- number of non-missing members -/
def validCount (ms : List Val) : Nat := (dropNaN ms).length

/-- One output slot: the NumPy reduction of the members (original order); the user's fill when the label
    never occurs or has fewer than `minCount` valid members. `none` = flox must refuse (no fill supplied). -/
def slot (k : Kernel) (minCount : Nat) (userFill : Option Val) (ms : List Val) : Option Val :=
  if ms.isEmpty then userFill
  else if validCount ms < minCount then userFill
  else some (kEval k ms)

/-- positions in the whole array of the members of group `g` -/
def positions (g : Int) (codes : List Int) : List Nat :=
  (codes.zipIdx).filterMap fun (c, i) => if c = g then some i else none

def isArg : Kernel → Bool
  | .argmax | .argmin | .nanargmax | .nanargmin => true
  | _ => false

/-- arg-reductions return the index *along the whole reduced axis* of the first occurrence of the extreme -/
def argSlot (k : Kernel) (minCount : Nat) (userFill : Option Val) (pos : List Nat) (ms : List Val) : Option Val :=
  if ms.isEmpty then userFill
  else if validCount ms < minCount then userFill
  else match kEval k ms with
    | .fin q => some (Val.ofNat (pos.getD q.num.toNat 0))
    | v => some v

/-- result for codes `0..ngroups-1` (elements with any other code contribute to no slot) -/
def reduce (k : Kernel) (minCount : Nat) (userFill : Option Val) (codes : List Int) (vals : List Val)
    (ngroups : Nat) : Option (List Val) :=
  (List.range ngroups).mapM fun (g : Nat) =>
    if isArg k then argSlot k minCount userFill (positions (Int.ofNat g) codes) (members (Int.ofNat g) codes vals)
    else slot k minCount userFill (members (Int.ofNat g) codes vals)

end Spec
end Flox
