/-
  Row types of the tables the translator regenerates from /repo on every run
  (`lean/FloxModel/Generated/*.lean`), and their interpretation as model objects.
-/
import FloxModel.Pipeline

namespace Flox

/-- one entry of `flox.aggregations.AGGREGATIONS` (an `Aggregation`), fields as text -/
structure RegistryRow where
  key : String
  name : String
  numpy : List String
  chunk : List String
  combine : List String
  fills : List String
  finalFill : String
  interDtypes : List String
  finalDtype : String
  finalize : String
  preprocess : String
  reductionType : String
  preservesDtype : Bool
  newDims : String
deriving Repr, DecidableEq, Inhabited

structure ScanRow where
  key : String
  name : String
  binaryOp : String
  scan : String
  reduction : String
  identity : String
  mode : String
  preprocess : String
  finalize : String
  preservesDtype : Bool
deriving Repr, DecidableEq, Inhabited

/-- one cell of `_initialize_aggregation(func, None, dtype, fill, min_count, {})` -/
structure InitRow where
  func : String
  dkind : String
  fillKind : String
  mcPos : Bool
  ok : Bool
  err : String := ""
  numpy : List String := []
  chunk : List String := []
  combine : List String := []
  simple : List String := []
  interFills : List String := []
  numpyFills : List String := []
  finalFill : String := ""
  userFill : String := ""
  minCount : String := ""
  finalize : String := ""
  finalDtype : String := ""
  interDtypes : List String := []
  numpyDtypes : List String := []
  isArg : Bool := false
deriving Repr, DecidableEq, Inhabited

def finalizeTag : String → String
  | "_mean_finalize" => "mean"
  | "_var_finalize" => "var"
  | "_std_finalize" => "std"
  | "_pick_second" => "second"
  | "None" => "none"
  | s => s

def kernelWithDdof (ddof : Nat) (s : String) : Option Kernel :=
  match s with
  | "var" | "std" => some (.var ddof)
  | "nanvar" | "nanstd" => some (.nanvar ddof)
  | "count" => some .nanlen
  | _ => Kernel.ofString? s

/-- fill value text → Val (`None` ↦ none) -/
def fillOfString (s : String) : Option Val :=
  if s = "None" then none else Val.parse? s

/-- interpret an `InitRow` as the model's `Resolved`, substituting the actual user fill / min_count / ddof.
    Returns `none` when the row uses something the value model does not cover. -/
def InitRow.resolve (r : InitRow) (user : Option Val) (mc : Nat) (ddof : Nat) : Option Resolved := do
  if !r.ok then none
  let numpy ← r.numpy.mapM (kernelWithDdof ddof)
  let chunk ← if r.chunk = ["None"] then some [] else r.chunk.mapM (kernelWithDdof ddof)
  let combine ← if r.combine = ["None"] then some [] else r.combine.mapM (kernelWithDdof ddof)
  let interFills ← r.interFills.mapM fun s => (fillOfString s)
  let numpyFills := r.numpyFills.map fun s => (fillOfString s).getD Val.nan
  let userFill : Option Val :=
    if r.userFill = "user" then user else if r.userFill = "none" then none else fillOfString r.userFill
  let minCount : Nat := if r.minCount = "mc" then mc else r.minCount.toNat!
  some {
    name := r.func, numpy := numpy, chunk := chunk, combine := combine,
    interFills := interFills, numpyFills := numpyFills, finalFill := fillOfString r.finalFill,
    userFill := userFill, minCount := minCount, finalize := finalizeTag r.finalize, ddof := ddof,
    isArg := r.isArg }

def findInit (rows : List InitRow) (func dkind fillKind : String) (mcPos : Bool) : Option InitRow :=
  rows.find? fun r => r.func = func && r.dkind = dkind && r.fillKind = fillKind && r.mcPos = mcPos

end Flox
