/-
  Grouped order statistics (C18): model of

  * `flox/aggregate_flox.py`: `quantile_` (the vectorised grouped quantile through ONE partition of the complex
    encoding `label + 1j*value`), `_lerp`, and the `_np_grouped_op` wrapper around it
    (`quantile`, `nanquantile`, `median`, `nanmedian`);
  * `flox/aggregate_npg.py`: `quantile`, `nanquantile`, `median`, `nanmedian` (numpy_groupies applies
    `np.quantile` & co. to every group's members);
  * the parts of `flox/core.py` these reductions go through: `chunk_reduce` (second factorisation, NaN-label
    sentinel, new leading axis for a vector `q`), `_choose_method` / `groupby_reduce` (chunked input: blockwise
    only), `dask_groupby_agg(method="blockwise")` + the final reindex of `groupby_reduce`.

  and the specification `Spec.quantile` (NumPy's `method="linear"` on the sorted valid members).

  Numbers are exact (`q : Rat`, values `Val`); IEEE rounding is not modelled (the harness feeds data on which the
  interpolation is exact in doubles).
-/
import FloxModel.Pipeline

namespace Flox
namespace Quantile

/-! ## specification (NumPy semantics only) -/

/-- the finite members, as rationals (`±inf` are outside the property's quantifier) -/
def finites : List Val → List Rat
  | [] => []
  | .fin r :: vs => r :: finites vs
  | _ :: vs => finites vs

/-- ascending insertion sort -/
def insertAsc (x : Rat) : List Rat → List Rat
  | [] => [x]
  | y :: ys => if x ≤ y then x :: y :: ys else y :: insertAsc x ys

def sortAsc : List Rat → List Rat
  | [] => []
  | x :: xs => insertAsc x (sortAsc xs)

/-- NumPy `method="linear"` on a sorted non-empty sample `s` of size `n`: virtual index `q·(n−1)`,
    interpolate between the order statistics at its floor and its ceiling. -/
def linear (q : Rat) (s : List Rat) : Rat :=
  let v : Rat := q * (((s.length : Int) - 1 : Int) : Rat)
  let a := s.getD v.floor.toNat 0
  let b := s.getD v.ceil.toNat 0
  a + (b - a) * (v - (v.floor : Rat))

def hasNaN (ms : List Val) : Bool := ms.any Val.isNaN

/-- `np.quantile(ms, q)` (`skipna = false`: any NaN member gives NaN) and `np.nanquantile(ms, q)`
    (`skipna = true`: NaN members are dropped; an all-NaN sample gives NaN). -/
def Spec.quantile (skipna : Bool) (q : Rat) (ms : List Val) : Val :=
  if !skipna && hasNaN ms then Val.nan
  else if finites ms = [] then Val.nan
  else Val.fin (linear q (sortAsc (finites ms)))

/-- one output slot per code `0..size-1`; a code without members gets the fill -/
def Spec.grouped (skipna : Bool) (q : Rat) (codes : List Int) (vals : List Val) (size : Nat) (fill : Val) :
    List Val :=
  (List.range size).map fun (g : Nat) =>
    let ms := members (Int.ofNat g) codes vals
    if ms.isEmpty then fill else Spec.quantile skipna q ms

/-! ## `aggregate_flox.quantile_` -/

/-- NumPy's `<` on complex numbers `a.1 + 1j*a.2` with integer real parts (`npy_sort` `CLT`):
    an entry with a NaN imaginary part is larger than every entry without, whatever the real parts. -/
def clt (a b : Int × Val) : Bool :=
  if a.1 < b.1 then (!a.2.isNaN || b.2.isNaN)
  else if b.1 < a.1 then (b.2.isNaN && !a.2.isNaN)
  else (Val.lt a.2 b.2 || (b.2.isNaN && !a.2.isNaN))

/-- `a ≤ b` in that order -/
def cle (a b : Int × Val) : Bool := !clt b a

def cinsert (x : Int × Val) : List (Int × Val) → List (Int × Val)
  | [] => [x]
  | y :: ys => if cle x y then x :: y :: ys else y :: cinsert x ys

/-- the array after `cmplx.partition(kth)`, *at the positions `kth`*: the fully sorted array
    (only positions listed in `kth` are ever read) -/
def csort : List (Int × Val) → List (Int × Val)
  | [] => []
  | x :: xs => cinsert x (csort xs)

/-- `np.take_along_axis` with NumPy's wrap-around of negative indices (an out-of-bounds index would raise
    in NumPy; the model answers NaN – never reached, see `FloxProofs.Quantile`) -/
def takeWrap (S : List Val) (i : Int) : Val :=
  if i < 0 then S.getD (S.length - i.natAbs) Val.nan else S.getD i.toNat Val.nan

/-- `_lerp(a, b, t=γ)`: `a + (b-a)·t`, overwritten by `b - (b-a)·(1-t)` where `t ≥ 0.5` -/
def lerp (a b : Val) (t : Rat) : Val :=
  let diff := Val.sub b a
  if (1 : Rat) / 2 ≤ t then Val.sub b (Val.mul diff (Val.fin (1 - t)))
  else Val.add a (Val.mul diff (Val.fin t))

/-- one (group, q) cell: `virtual_index = q * (actual_size - 1) + offset of the previous groups`,
    `lo = floor`, `hi = ceil`, `gamma = virtual_index - lo`, take, lerp -/
def cell (S : List Val) (q : Rat) (off : Nat) (nvalid : Nat) : Val :=
  let vi : Rat := q * (((nvalid : Int) - 1 : Int) : Rat) + (((off : Nat) : Int) : Rat)
  lerp (takeWrap S vi.floor) (takeWrap S vi.ceil) (vi - (vi.floor : Rat))

/-- the loop over the present groups (in NumPy: vectorised over `inv_idx`): `actual_sizes` = number of valid
    members (`np.add.reduceat(notnull(array), inv_idx)`), `offset = cumsum(actual_sizes)`, `nanmask`
    (`full_sizes != actual_sizes`) for the NaN-propagating variants -/
def segResults (skipna : Bool) (q : Rat) (S : List Val) : Nat → List (Int × List Val) → List (Int × Val)
  | _, [] => []
  | off, (k, ms) :: rest =>
    let nvalid := (dropNaN ms).length
    let r := cell S q off nvalid
    -- `if not skipna and any(nanmask): result[nanmask] = nan`
    -- `elif skipna: result[actual_sizes < 0] = nan` (after the decrement: groups without any valid value)
    let r := if !skipna && nvalid ≠ ms.length then Val.nan
             else if skipna && nvalid = 0 then Val.nan else r
    (k, r) :: segResults skipna q S (off + nvalid) rest

/-- `aggregate_flox.{quantile,nanquantile,median,nanmedian}(group_idx, array, q=q, size=size, fill_value=fill)`
    for a 1-D array and one `q` (after `_prepare_for_flox`): `_np_grouped_op` finds the runs, `quantile_`
    computes one value per present group, the result is scattered into `np.full(size, fill)`.
    Codes are assumed to lie in `0..size-1` (`chunk_reduce` guarantees it). -/
def engineFlox (skipna : Bool) (q : Rat) (codes : List Int) (vals : List Val) (size : Nat) (fill : Val) :
    List Val :=
  let s := EngineFlox.prepare codes vals
  let S := (csort s).map (·.2)
  let res := segResults skipna q S 0 (EngineFlox.segments s)
  (List.range size).map fun (g : Nat) =>
    match res.lookup (Int.ofNat g) with
    | some r => r
    | none => fill

/-- `aggregate_npg.{quantile,nanquantile,median,nanmedian}`: numpy_groupies calls `np.quantile` /
    `np.nanquantile` / `np.median` / `np.nanmedian` on each group's members (third-party contract). -/
def engineNpg (skipna : Bool) (q : Rat) (codes : List Int) (vals : List Val) (size : Nat) (fill : Val) :
    List Val :=
  (List.range size).map fun (g : Nat) =>
    let ms := members (Int.ofNat g) codes vals
    if ms.isEmpty then fill else Spec.quantile skipna q ms

def engine (eng : Eng) : Bool → Rat → List Int → List Val → Nat → Val → List Val :=
  match eng with
  | .flox => engineFlox
  | _ => engineNpg

/-! ## the API level -/

inductive QFunc where
  | median | nanmedian | quantile | nanquantile
deriving DecidableEq, Repr, Inhabited

def QFunc.ofString? : String → Option QFunc
  | "median" => some .median | "nanmedian" => some .nanmedian
  | "quantile" => some .quantile | "nanquantile" => some .nanquantile
  | _ => none

def QFunc.skipna : QFunc → Bool
  | .nanmedian | .nanquantile => true
  | _ => false

def QFunc.isQuantile : QFunc → Bool
  | .quantile | .nanquantile => true
  | _ => false

/-- the `q` argument: a scalar adds no axis, a vector adds one leading axis (in the order given) -/
inductive QArg where
  | scalar (q : Rat)
  | vector (qs : List Rat)
deriving DecidableEq, Repr, Inhabited

def QArg.toList : QArg → List Rat
  | .scalar q => [q]
  | .vector qs => qs

/-- result array: shape and values in C order -/
structure NDResult where
  groups : List Key
  shape : List Nat
  vals : List Val
deriving DecidableEq, Repr, Inhabited

inductive QOutcome where
  | ok (r : NDResult)
  | err (kind : String)
deriving DecidableEq, Repr, Inhabited

def QOutcome.shape : QOutcome → List Nat
  | .ok r => r.shape
  | .err _ => []

def QOutcome.vals : QOutcome → List Val
  | .ok r => r.vals
  | .err _ => []

structure QRequest where
  func : QFunc
  eng : Eng
  q : Option QArg            -- `finalize_kwargs["q"]` (ignored by median / nanmedian, which fix q = 1/2)
deriving Repr, Inhabited

/-- the early checks of `groupby_reduce` that concern `q` -/
def validate (rq : QRequest) : Except String (List Rat × Bool) :=
  if rq.func.isQuantile then
    match rq.q with
    | none => .error "ValueError"                       -- "Please pass `q` for quantile calculations."
    | some (.scalar q) => .ok ([q], true)
    | some (.vector qs) =>
      -- engine="numpy": more than one q is refused up front ("Multiple quantiles not supported with
      -- engine='numpy'"); a one-element vector passes that check and then fails inside numpy_groupies, which
      -- cannot store the length-1 array `np.quantile(members, [q])` into a slot ("setting an array element
      -- with a sequence", a ValueError as well)
      if rq.eng == .npg && qs.length > 1 then .error "ValueError"
      else .ok (qs, false)
  else .ok ([(1 : Rat) / 2], true)

/-- `chunk_reduce` for one block and one row of the batch: factorise the keys of the block (`expected = some n`:
    the keys are already codes of `RangeIndex(n)` – the eager call; `none`: sorted unique – a block of the
    blockwise plan), a missing key gets the sentinel code `ngroups` (`size = ngroups + 1`), run the engine for
    every `q`, drop the sentinel slot.  Returns the found groups and one list of slots per `q`. -/
def chunkQuantile (eng : Eng) (skipna : Bool) (qs : List Rat) (keys : List Key) (row : List Val)
    (expected : Option Nat) : List Key × List (List Val) :=
  let (found, codes) := factorizeKeys keys expected true
  let ngroups := found.length
  let hasnan := codes.any (· == -1)
  let empty := codes.all (· == -1)
  let size := if hasnan then ngroups + 1 else ngroups
  let codes' := codes.map fun c => if c == -1 then (ngroups : Int) else c
  let groups : List Key :=
    match expected with
    | some _ => found.map some
    | none => if empty then [none] else found.map some
  (groups, qs.map fun q =>
    if empty then List.replicate groups.length Val.nan
    else (engine eng skipna q codes' row size Val.nan).take ngroups)

/-- assemble `(nq?, batch, ngroups)` in C order from `perRow[r][iq][g]` -/
def assemble (scalarQ : Bool) (nq nrows ngroups : Nat) (batch1d : Bool) (perRow : List (List (List Val))) :
    List Nat × List Val :=
  let vals := (List.range nq).flatMap fun iq => perRow.flatMap fun r => r.getD iq []
  let shape := (if scalarQ then [] else [nq]) ++ (if batch1d then [] else [nrows]) ++ [ngroups]
  (shape, vals)

/-- eager `groupby_reduce(rows, labels, func=…, finalize_kwargs={"q": …}, engine=…)`;
    `batch1d` = the array is 1-D (`rows` has one row and no batch axis) -/
def runEager (rq : QRequest) (labels : List Key) (rows : List (List Val)) (batch1d : Bool) : QOutcome :=
  match validate rq with
  | .error e => .err e
  | .ok (qs, scalarQ) =>
    let (groups, codes) := factorizeKeys labels none true
    let keys : List Key := codes.map fun (c : Int) => if c = -1 then none else some (c : Rat)
    let per := rows.map fun row => (chunkQuantile rq.eng rq.func.skipna qs keys row (some groups.length)).2
    -- all labels missing (`empty` in `chunk_reduce`): the result is `np.full(new_dims_shape + final_array_shape, fill)`
    -- and the engine is never called
    let allMissing := codes.all (· == -1)
    let (shape, vals) := assemble scalarQ qs.length rows.length groups.length batch1d per
    if rq.eng == .npg && !scalarQ && !allMissing then .err "ValueError"     -- one-element vector q inside numpy_groupies
    else .ok { groups := groups.map some, shape := shape, vals := vals }

/-! ### chunked input -/

inductive Method where
  | mapreduce | blockwise | cohorts
deriving DecidableEq, Repr, Inhabited

/-- `find_group_cohorts`' verdict for 1-D labels: blockwise is preferred iff there is a single block or every
    (non-missing) code occurs in exactly one block -/
def blocksOf {α} : List Nat → List α → List (List α)
  | [], _ => []
  | c :: cs, xs => xs.take c :: blocksOf cs (xs.drop c)

def codeBlocks (code : Int) (blocks : List (List Int)) : Nat := (blocks.filter fun b => b.contains code).length

def prefersBlockwise (chunks : List Nat) (codes : List Int) : Bool :=
  chunks.length == 1 ||
    (codes.all fun c => c == -1 || codeBlocks c (blocksOf chunks codes) == 1)

/-- `_choose_method` + the check in `groupby_reduce` for aggregations without a chunk stage (`chunk=None`):
    anything but blockwise is refused -/
def chooseMethod (method : Option Method) (preferBlockwise : Bool) : Except String Method :=
  match method with
  | none => if preferBlockwise then .ok .blockwise else .error "ValueError"
  | some .blockwise => .ok .blockwise
  | some _ => .error "NotImplementedError"

def hasDup : List Key → Bool
  | [] => false
  | k :: ks => ks.contains k || hasDup ks

def lookupSlot (g : Key) (gs : List Key) (vs : List Val) : Val :=
  match (gs.zip vs).lookup g with
  | some v => v
  | none => Val.nan

/-- `dask_groupby_agg(method="blockwise")` on 1-D labels followed by the post-processing of `groupby_reduce`:
    every block is reduced on its own (the codes of `_factorize_multiple` are the block's labels; the code `-1`
    of a missing label is an ordinary label inside a block), the per-block results are concatenated, repeated
    `-1` groups are removed; a label that is still repeated (a group that occurs in two blocks) is refused with
    a `ValueError`; otherwise the result is re-indexed to `0..ngroups-1`.
    `chunks` are the chunks after `rechunk_for_blockwise` (observed, C17's business). -/
def runBlockwise (rq : QRequest) (qs : List Rat) (scalarQ : Bool) (chunks : List Nat) (labels : List Key)
    (rows : List (List Val)) (batch1d : Bool) : QOutcome :=
  let (groups, codes) := factorizeKeys labels none true
  let keyBlocks : List (List Key) := blocksOf chunks (codes.map fun (c : Int) => some (c : Rat))
  let perRowBlocks := rows.map fun row =>
    (keyBlocks.zip (blocksOf chunks row)).map fun (ks, vs) => chunkQuantile rq.eng rq.func.skipna qs ks vs none
  let catGroups : List Key := (keyBlocks.map fun ks => (factorizeKeys ks none true).1.map some).flatten
  let minus1 : Key := some (-1)
  let dropAll := (catGroups.filter (· == minus1)).length > 1
  let keep : List Key := if dropAll then catGroups.filter (· != minus1) else catGroups
  if hasDup keep then .err "ValueError"        -- "method='blockwise' requires that all members of a group lie within a single block"
  else if rq.eng == .npg && !scalarQ then .err "ValueError"               -- one-element vector q inside numpy_groupies
  else
    let per := perRowBlocks.map fun blocks =>
      (List.range qs.length).map fun iq =>
        let catVals := (blocks.map fun b => b.2.getD iq []).flatten
        (List.range groups.length).map fun (g : Nat) => lookupSlot (some (g : Rat)) catGroups catVals
    let (shape, vals) := assemble scalarQ qs.length rows.length groups.length batch1d per
    .ok { groups := groups.map some, shape := shape, vals := vals }

/-- chunked `groupby_reduce`: `userChunks` as passed by the caller decide the plan; `chunks` are those the
    blockwise stage really ran with -/
def runChunked (rq : QRequest) (method : Option Method) (userChunks chunks : List Nat) (labels : List Key)
    (rows : List (List Val)) (batch1d : Bool) : QOutcome :=
  match validate rq with
  | .error e => .err e
  | .ok (qs, scalarQ) =>
    let (_, codes) := factorizeKeys labels none true
    match chooseMethod method (prefersBlockwise userChunks codes) with
    | .error e => .err e
    | .ok _ => runBlockwise rq qs scalarQ chunks labels rows batch1d

/-- what the property demands of the whole call: per present label (ascending) and per `q`, NumPy's quantile of
    that label's members; `none` = the call may be refused (chunked input with a group in several blocks,
    or a request outside the API: no `q`, vector `q` with engine numpy) -/
def specRun (rq : QRequest) (labels : List Key) (rows : List (List Val)) (batch1d : Bool) : QOutcome :=
  let qs? : Option (List Rat × Bool) :=
    if rq.func.isQuantile then
      match rq.q with
      | none => none
      | some (.scalar q) => some ([q], true)
      | some (.vector qs) => some (qs, false)
    else some ([(1 : Rat) / 2], true)
  match qs? with
  | none => .err "ValueError"
  | some (qs, scalarQ) =>
    let (groups, codes) := factorizeKeys labels none true
    let per := rows.map fun row => qs.map fun q =>
      Spec.grouped rq.func.skipna q codes row groups.length Val.nan
    let (shape, vals) := assemble scalarQ qs.length rows.length groups.length batch1d per
    .ok { groups := groups.map some, shape := shape, vals := vals }

end Quantile
end Flox
