/-
  User-defined aggregations (`flox.Aggregation(name, numpy=…, chunk=…, combine=…, finalize=…, fill_value=…,
  final_fill_value=…, dtypes=…)` passed as `func`).

  `groupby_reduce` treats such an object exactly like a registry entry: `_initialize_aggregation` deep-copies it,
  resolves the sentinel fills for the dtype, appends the count column when `min_count > 0`, and the block /
  combine / finalize pipeline of `Pipeline.lean` runs on the resolved fields.  The model therefore needs nothing
  new except an entry point that takes the resolved fields *explicitly* (the harness obtains them by calling the
  real `_initialize_aggregation(custom_agg, …)`) instead of looking them up in `Generated.initRows`:

  * `RawAgg`            – the resolved fields as text (kernel names, fill values, finalize tag),
  * `RawAgg.resolve`    – text ↦ `Resolved` (`none` when a kernel name / fill is outside the value model),
  * `runResolved`       – the part of `Flox.run` that comes after the table lookup (`run_eq_runResolved`: `Flox.run`
                          *is* table lookup followed by `runResolved`, so built-in and user aggregations are executed
                          by the same model code),
  * `specResolved`      – the specification for an aggregation that claims to implement NumPy kernel `k`.

  Only string kernels are modelled (callables as `chunk` / `combine` entries are outside the model); a Python
  `finalize` callable is mapped by the harness to one of the tags understood by `finalizeVals`
  ("none" = first intermediate, "mean" = `a / b`, "second" = second intermediate, "var" / "std").
-/
import FloxModel.Entry

namespace Flox

/-- the fields of an initialised `Aggregation`, as text -/
structure RawAgg where
  name : String
  numpy : List String
  chunk : List String          -- `["None"]` when `chunk=None`
  combine : List String
  interFills : List String     -- already resolved for the dtype (`agg.fill_value["intermediate"]`)
  numpyFills : List String     -- `agg.fill_value["numpy"]`
  finalFill : String           -- `agg.fill_value[agg.name]`; "None" allowed
  userFill : String            -- `agg.fill_value["user"]`; "None" = not given
  minCount : Nat               -- `agg.min_count`
  finalize : String            -- tag
  ddof : Nat
  isArg : Bool
deriving Repr, DecidableEq, Inhabited

def RawAgg.resolve (a : RawAgg) : Option Resolved := do
  let numpy ← a.numpy.mapM (kernelWithDdof a.ddof)
  let chunk ← if a.chunk = ["None"] then some [] else a.chunk.mapM (kernelWithDdof a.ddof)
  let combine ← if a.combine = ["None"] then some [] else a.combine.mapM (kernelWithDdof a.ddof)
  let interFills ← a.interFills.mapM Val.parse?
  let numpyFills ← a.numpyFills.mapM Val.parse?
  let finalFill ← if a.finalFill = "None" then some none else (Val.parse? a.finalFill).map some
  let userFill ← if a.userFill = "None" then some none else (Val.parse? a.userFill).map some
  if !(["none", "mean", "var", "std", "second"].contains a.finalize) then none
  some {
    name := a.name, numpy := numpy, chunk := chunk, combine := combine, interFills := interFills,
    numpyFills := numpyFills, finalFill := finalFill, userFill := userFill, minCount := a.minCount,
    finalize := a.finalize, ddof := a.ddof, isArg := a.isArg }

/-- `groupby_reduce` after `_initialize_aggregation`: factorise the labels, run the plan, return labels and values.
    `fill` is the `fill_value` variable of `groupby_reduce` (used by its final reindex). -/
def runResolved (R : Resolved) (rq : Request) (fill : Option Val) (plan : Plan) (chunks : List Nat)
    (labels : List Key) (vals : List Val) : Outcome :=
  if rq.known then
    let (groups, codes) := factorizeLabels labels rq.expected rq.sort
    let c : Call := { R := R, eng := rq.eng, sort := rq.sort, ngroups := groups.length, knownLabels := true,
                      fillArg := fill, splitEvery := rq.splitEvery }
    let keys : List Key := codes.map fun (i : Int) => some (i : Rat)
    match runKnown c plan rq.floatData chunks keys vals with
    | .ok vs => .ok (groups.map some) vs
    | .error e => .err e
  else
    let c : Call := { R := R, eng := rq.eng, sort := rq.sort, ngroups := 0, knownLabels := false,
                      fillArg := fill, splitEvery := rq.splitEvery }
    match runUnknown c chunks labels vals with
    | .ok (gs, vs) => .ok gs vs
    | .error e => .err e

/-- a user aggregation that chains the chunk stage with a dask graph needs `chunk ≠ None` unless blockwise -/
def chunkless (R : Resolved) (plan : Plan) : Bool :=
  R.chunk.isEmpty && (match plan with | .mapreduce _ => true | .cohorts _ => true | _ => false)

/-- entry point for a user `Aggregation` -/
def runUser (a : RawAgg) (rq : Request) (fill : Option Val) (plan : Plan) (chunks : List Nat)
    (labels : List Key) (vals : List Val) : Outcome :=
  match a.resolve with
  | none => .unsupported "unresolved-aggregation"
  | some R =>
    if chunkless R plan then .err "NotImplementedError"
    else runResolved R rq fill plan chunks labels vals

/-- specification for an aggregation that claims to implement the NumPy kernel `k`: per requested (or present)
    label, `k` on the members; `minCount` / `fill` as documented for `groupby_reduce` -/
def specResolved (k : Kernel) (minCount : Nat) (fill : Option Val) (expected : Option (List Rat))
    (labels : List Key) (vals : List Val) : Outcome :=
  let (groups, codes) := factorizeLabels labels expected true
  match Spec.reduce k minCount fill codes vals groups.length with
  | some vs => .ok (groups.map some) vs
  | none => .err "ValueError"

end Flox
