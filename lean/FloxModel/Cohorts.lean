/-
  Model of the cohort planner: `flox.core._compute_label_chunk_bitmask` + `flox.core.find_group_cohorts`
  (core.py 349-616), bug for bug.

  Stage A (incidence)  : label array + chunk layout  ↦  table  label ↦ sorted list of the blocks that hold a member
  Stage B (planning)   : the table ↦ preferred method + cohorts (dict  tuple-of-blocks ↦ list-of-labels, in dict order)

  Things that are deliberately NOT hidden:
  * branch 1 (`nchunks == 1`) returns *all* labels `0..nlabels-1` (present or not) in one cohort on block 0;
  * branch 3 / branch 7 return an empty dict together with "map-reduce" when `merge = False`;
  * `one_group_per_chunk` is false as soon as one block holds only missing labels; `no_overlapping_cohorts` is false as
    soon as a block below the largest used block index holds no label (`np.bincount(...) == 1`);
  * the merge loop stores each merged cohort under the sorted tuple of the union of its blocks; a later cohort with the same
    union is JOINED with the earlier one, labels kept ascending (repaired code; before it overwrote and the asserts fired); the two `assert`s
    that follow are still modelled as `internalError` (`planner_always_answers`: they never fire).
  * thresholds: `sparsity > 0.4` and `containment >= 0.75` are parameters (`Thresholds`); `exactThresholds` are the exact
    rational comparisons `5·nnz > 2·size`, `4·|Q∩S| ≥ 3·|Q|`.  scipy computes containment as `|Q∩S| * fl(1/|Q|)`; this equals
    the exact comparison for every |Q| < 196 (first difference: 147 * fl(1/196) < 0.75), checked exhaustively up to 4000.
    All theorems hold for ARBITRARY thresholds.
  * the dict key is the ascending block list (`tuple(sorted(set(...)))`).
-/
namespace Flox
namespace Cohorts

/-- one element of the (flattened) label array: (integer code, -1 = missing ; flat row-major index of its block) -/
abbrev Elem := Int × Nat

/-- (blocks, labels) – one item of the returned dict -/
abbrev Cohort := List Nat × List Nat

/-- (label, ascending list of the blocks holding a member of it) -/
abbrev Entry := Nat × List Nat

inductive Method where
  | blockwise | cohorts | mapreduce
deriving DecidableEq, Repr

inductive Outcome where
  | ok (m : Method) (cs : List Cohort)
  | internalError (which : String)
deriving DecidableEq, Repr

structure Thresholds where
  /-- `nnz size ↦ nnz / size > MAX_SPARSITY_FOR_COHORTS` -/
  dense : Nat → Nat → Bool
  /-- `q n ↦ q / n >= MIN_CONTAINMENT`  (q = |Q ∩ S|, n = |Q|) -/
  close : Nat → Nat → Bool

def exactThresholds : Thresholds :=
  { dense := fun nnz size => decide (5 * nnz > 2 * size), close := fun q n => decide (4 * q ≥ 3 * n) }

/-! ### Stage A : incidence of labels over blocks -/

/-- block ids along one axis: chunk sizes `[2,1,3]` ↦ `[0,0,1,2,2,2]` -/
def axisIds (cs : List Nat) : List Nat :=
  (cs.zipIdx).flatMap fun (c, i) => List.replicate c i

/-- flat (row-major over the chunk grid) block index of every element of the row-major flattened array -/
def blockIds : List (List Nat) → List Nat
  | [] => [0]
  | cs :: rest =>
    let inner := blockIds rest
    let nb := (rest.map List.length).foldr (· * ·) 1
    (axisIds cs).flatMap fun a => inner.map fun b => a * nb + b

def nChunks (chunks : List (List Nat)) : Nat := (chunks.map List.length).foldr (· * ·) 1

def singleChunks (chunks : List (List Nat)) : Bool := chunks.all fun ac => ac.all (· == 1)

/-- `labels.max() + 1` -/
def maxPlusOne (codes : List Int) : Nat := codes.foldl (fun m c => Nat.max m (c + 1).toNat) 0

def holds (elems : List Elem) (l b : Nat) : Bool := elems.contains ((l : Int), b)

def blocksOf (elems : List Elem) (nchunks l : Nat) : List Nat := (List.range nchunks).filter (holds elems l)

/-- `label_chunks` (present labels only, ascending) -/
def tblOf (elems : List Elem) (nchunks nlabels : Nat) : List Entry :=
  ((List.range nlabels).map fun l => (l, blocksOf elems nchunks l)).filter fun e => !e.2.isEmpty

/-! ### Stage B : planning on the table -/

/-- stable insertion sort (structural recursion, so that the kernel can evaluate it): `a` is placed before the first `x`
    with `le a x`; elements that compare equal keep their original order (like NumPy's `kind="stable"` / Python's `sorted`) -/
def insertStable {α} (le : α → α → Bool) (a : α) : List α → List α
  | [] => [a]
  | x :: xs => if le a x then a :: x :: xs else x :: insertStable le a xs

def stableSort {α} (le : α → α → Bool) : List α → List α
  | [] => []
  | a :: l => insertStable le a (stableSort le l)

/-- distinct keys in order of first appearance (`toolz.groupby` builds its dict in this order) -/
def dedupKeys : List (List Nat) → List (List Nat)
  | [] => []
  | k :: ks => k :: (dedupKeys ks).filter (· != k)

/-- `chunks_cohorts = tlz.groupby(invert, label_chunks.keys())` -/
def exactCohorts (tbl : List Entry) : List Cohort :=
  (dedupKeys (tbl.map (·.2))).map fun k => (k, (tbl.filter (·.2 == k)).map (·.1))

def interCount (a b : List Nat) : Nat := (a.filter (b.contains ·)).length

/-- a label whose row of the containment matrix is zeroed: not the first member of its exact cohort -/
def isFirst (tbl : List Entry) (e : Entry) : Bool :=
  match tbl.find? (·.2 == e.2) with
  | some f => f.1 == e.1
  | none => false

/-- the surviving entries of row `e` of the containment matrix (column labels, ascending) -/
def row (T : Thresholds) (tbl : List Entry) (e : Entry) : List Nat :=
  if isFirst tbl e then
    (tbl.filter fun j => decide (0 < interCount e.2 j.2) && T.close (interCount e.2 j.2) j.2.length).map (·.1)
  else []

/-- rows in the order the merge loop visits them: stable argsort by number of overlapping labels, reversed, empty rows dropped -/
def visitOrder (T : Thresholds) (tbl : List Entry) : List (Nat × List Nat) :=
  let rows := tbl.map fun e => (e.1, row T tbl e)
  ((stableSort (fun a b => decide (a.2.length ≤ b.2.length)) rows).reverse).filter fun r => decide (0 < r.2.length)

def holdsTbl (tbl : List Entry) (l b : Nat) : Bool := tbl.any fun e => e.1 == l && e.2.contains b

/-- `tuple(sorted(set(itertools.chain(*allchunks))))` -/
def unionBlocks (tbl : List Entry) (nchunks : Nat) (cohort : List Nat) : List Nat :=
  (List.range nchunks).filter fun b => cohort.any fun l => holdsTbl tbl l b

/-- `sorted(labels)` -/
def sortLabels (l : List Nat) : List Nat := stableSort (fun a b => decide (a ≤ b)) l

/-- `if k in d: d[k] = sorted(d[k] + v) else: d[k] = v` for a Python dict kept as an association list in insertion order
    (two merged cohorts that span exactly the same blocks are one cohort; labels of a cohort stay ascending, which
    `dask_groupby_agg` relies on) -/
def dictInsert : List Cohort → List Nat → List Nat → List Cohort
  | [], k, v => [(k, v)]
  | c :: d, k, v => if c.1 == k then (k, sortLabels (c.2 ++ v)) :: d else c :: dictInsert d k v

structure MState where
  mergedKeys : List Nat
  dict : List Cohort
deriving Repr

def mergeStep (tbl : List Entry) (nchunks : Nat) (s : MState) (r : Nat × List Nat) : MState :=
  if s.mergedKeys.contains r.1 then s else
  let cohort := r.2.filter fun j => !s.mergedKeys.contains j
  if cohort.isEmpty then s else
  { mergedKeys := s.mergedKeys ++ cohort, dict := dictInsert s.dict (unionBlocks tbl nchunks cohort) cohort }

def mergeLoop (T : Thresholds) (tbl : List Entry) (nchunks : Nat) : MState :=
  (visitOrder T tbl).foldl (mergeStep tbl nchunks) { mergedKeys := [], dict := [] }

def totalLabels (d : List Cohort) : Nat := (d.flatMap (·.2)).length

/-- `dict(sorted(merged_cohorts.items(), key=lambda kv: kv[1][0]))` -/
def sortByFirst (d : List Cohort) : List Cohort :=
  stableSort (fun a b => decide (a.2.headD 0 ≤ b.2.headD 0)) d

def oneGroupPerChunk (tbl : List Entry) (nchunks : Nat) : Bool :=
  (List.range nchunks).all fun b => (tbl.filter fun e => e.2.contains b).length == 1

/-- `(np.bincount(np.concatenate(keys)) == 1).all()` -/
def noOverlappingCohorts (tbl : List Entry) : Bool :=
  let cat := (dedupKeys (tbl.map (·.2))).flatten
  (List.range (cat.foldl Nat.max 0 + 1)).all fun b => cat.count b == 1

/-- `find_group_cohorts` after the single-chunk shortcut -/
def plan (T : Thresholds) (nchunks : Nat) (single merge : Bool) (tbl : List Entry) : Outcome :=
  let exact := exactCohorts tbl
  -- 2. every group is contained in one block
  if tbl.all (fun e => e.2.length == 1) then .ok .blockwise exact
  -- 3. a single cohort
  else if exact.length == 1 then .ok .mapreduce (if merge then exact else [])
  -- 4./5./6.
  else if oneGroupPerChunk tbl nchunks || single || noOverlappingCohorts tbl then .ok .cohorts exact
  else
    -- 7. sparsity shortcut
    let nnz := (tbl.map (·.2.length)).sum
    let isDense := T.dense nnz (nchunks * tbl.length)
    if isDense && !merge then .ok .mapreduce []
    else
      let pref := if isDense then Method.mapreduce else Method.cohorts
      let s := mergeLoop T tbl nchunks
      let actual := totalLabels s.dict
      if s.mergedKeys.length != actual then .internalError "assert len(merged_keys) == actual_ngroups"
      else if tbl.length != actual then .internalError "assert expected_ngroups == actual_ngroups"
      else .ok pref (sortByFirst s.dict)

/-- `find_group_cohorts(labels, chunks, expected_groups, merge)` on the element list -/
def find (T : Thresholds) (elems : List Elem) (nchunks nlabels : Nat) (single merge : Bool) : Outcome :=
  -- 1. single chunk: blockwise always
  if nchunks == 1 then .ok .blockwise [([0], List.range nlabels)]
  else plan T nchunks single merge (tblOf elems nchunks nlabels)

/-- entry point used by the driver: codes (row-major), chunks per axis, optional size of `expected_groups` -/
def findFromArray (T : Thresholds) (codes : List Int) (chunks : List (List Nat)) (expected : Option Nat) (merge : Bool) :
    Outcome :=
  let nlabels := match expected with
    | some n => n
    | none => maxPlusOne codes
  find T (codes.zip (blockIds chunks)) (nChunks chunks) nlabels (singleChunks chunks) merge

/-! ### Specification (independent of the planner's internals) -/

/-- number of times label `l` is listed, over all cohorts -/
def occurrences (cs : List Cohort) (l : Nat) : Nat := (cs.flatMap (·.2)).count l

/-- label `l` is requested (`< nlabels`) and occurs in the array -/
def Present (elems : List Elem) (nlabels l : Nat) : Prop := l < nlabels ∧ ∃ e ∈ elems, e.1 = (l : Int)

/-- every present label is listed exactly once, and a cohort's blocks contain every block holding a member of any of its labels -/
def CohortsSound (elems : List Elem) (nlabels : Nat) (cs : List Cohort) : Prop :=
  (∀ l, l < nlabels → (∃ e ∈ elems, e.1 = (l : Int)) → occurrences cs l = 1) ∧
  (∀ c ∈ cs, ∀ l ∈ c.2, ∀ e ∈ elems, e.1 = (l : Int) → e.2 ∈ c.1)

/-- every present label is confined to a single block -/
def Confined (elems : List Elem) (nlabels : Nat) : Prop :=
  ∀ l, l < nlabels → ∀ e ∈ elems, ∀ e' ∈ elems, e.1 = (l : Int) → e'.1 = (l : Int) → e.2 = e'.2

instance (elems : List Elem) (nlabels : Nat) (cs : List Cohort) : Decidable (CohortsSound elems nlabels cs) := by
  unfold CohortsSound; exact inferInstance

instance (elems : List Elem) (nlabels : Nat) : Decidable (Confined elems nlabels) := by
  unfold Confined; exact inferInstance

end Cohorts
end Flox
