/-
  C19 — what the property demands, independent of flox internals.

  One *group* is one input (array, labels, reduction, engine, reindex, axis, expected_groups, chunk layout) evaluated
  under the four settings of `method`.  An outcome is either a list of result values (canonical text tokens), or the
  exception that was raised, given by the names of its class and of all its base classes.
-/
namespace Flox.Spec19

inductive Outcome where
  | ok (vals : List String)
  | raised (mro : List String)
  | notRun
deriving DecidableEq, Repr, Inhabited

/-- the exception classes a refusal may use -/
def cleanNames : List String := ["ValueError", "NotImplementedError", "ImportError"]

/-- a clean refusal: the exception is (a subclass of) ValueError, NotImplementedError or ImportError -/
def Outcome.clean : Outcome → Bool
  | .ok _ => true
  | .notRun => true
  | .raised mro => mro.any fun n => cleanNames.contains n

def Outcome.isOk : Outcome → Bool
  | .ok _ => true
  | _ => false

/-- `o` succeeded with the same values as `ref` -/
def agrees (ref o : Outcome) : Bool :=
  match ref, o with
  | .ok a, .ok b => a == b
  | _, _ => false

/-- `o` either matches `ref` or is a clean refusal -/
def matchesOrRefused (ref o : Outcome) : Bool :=
  match o with
  | .ok _ => agrees ref o
  | .raised _ => o.clean
  | .notRun => true

structure Group where
  reference : Outcome        -- NumPy applied per group (`notRun` when the oracle does not define the answer)
  mapReduce : Outcome
  auto : Outcome             -- method=None
  cohorts : Outcome
  blockwise : Outcome        -- `notRun` when the input does not meet the documented precondition of blockwise
deriving Repr

/-- the clauses of C19 violated by a group (empty = the property holds on it) -/
def violations (g : Group) : List String :=
  let named := [("map-reduce", g.mapReduce), ("auto", g.auto), ("cohorts", g.cohorts), ("blockwise", g.blockwise)]
  (named.filterMap fun (n, o) => if o.clean then none else some ("internal-error:" ++ n)) ++
  (named.filterMap fun (n, o) =>
    if g.reference.isOk && o.isOk && !agrees g.reference o then some ("wrong-answer:" ++ n) else none) ++
  (if g.mapReduce.isOk && !g.auto.isOk then ["auto-fails-where-map-reduce-succeeds"] else []) ++
  (if g.mapReduce.isOk && g.auto.isOk && !agrees g.mapReduce g.auto then ["auto-differs-from-map-reduce"] else []) ++
  (if g.mapReduce.isOk && !matchesOrRefused g.mapReduce g.cohorts then ["cohorts-neither-matches-nor-refused"] else []) ++
  (if g.mapReduce.isOk && !matchesOrRefused g.mapReduce g.blockwise then ["blockwise-neither-matches-nor-refused"] else [])

def holds (g : Group) : Bool := (violations g).isEmpty

end Flox.Spec19
