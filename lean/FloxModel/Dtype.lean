/-
  C11 — model of how flox decides the dtype of a result, and of the group-axis chunks it announces.

  * `DType`, `Func`, `UserD`, `FillK`: the finite grid the property quantifies over.
  * `DRow` / `DInit`: one cell of `flox.aggregations._initialize_aggregation` (the table itself is regenerated from the
    live code into `FloxModel/Generated/Dtypes.lean`).
  * `apiDtype`: the entry / exit logic of `flox.core.groupby_reduce` around that call (bool → int, datetime → int64 view,
    implicit `min_count`, `nansum`/`nanprod` fill, final casts), written by hand from the source, bug for bug.
  * `npConvention`: the SPECIFICATION — NumPy's conventions as the property words them (no flox internals).
  * announced vs computed group-axis chunks of the three dask plans.

  Core Lean only (this file is linked into the native driver).
-/
import FloxModel.Pipeline

namespace Flox

/-- the dtypes of the grid (`M8` = datetime64[ns], `m8` = timedelta64[ns]); `obj` only occurs as a *result*
    (`maybe_promote(bool)`), never as an input -/
inductive DType where
  | bool | i8 | i16 | i32 | i64 | u8 | u16 | u32 | u64 | f32 | f64 | M8 | m8 | obj
deriving Repr, DecidableEq, Inhabited

/-- every `Aggregation` in `flox.aggregations.AGGREGATIONS` (same order) -/
inductive Func where
  | any_ | all_ | count | sum | nansum | prod | nanprod | mean | nanmean | var | nanvar | std | nanstd
  | max_ | nanmax | min_ | nanmin | argmax | nanargmax | argmin | nanargmin | first | nanfirst | last | nanlast
  | median | nanmedian | quantile | nanquantile | mode | nanmode
deriving Repr, DecidableEq, Inhabited

/-- the `dtype=` argument: not given, narrower / wider floating, integer -/
inductive UserD where
  | unset | f32 | f64 | i64
deriving Repr, DecidableEq, Inhabited

/-- the `fill_value=` argument: not given, `0`, `-7`, `10**6`, `NaN` -/
inductive FillK where
  | unset | zero | neg | big | nan
deriving Repr, DecidableEq, Inhabited

def DType.all : List DType := [.bool, .i8, .i16, .i32, .i64, .u8, .u16, .u32, .u64, .f32, .f64, .M8, .m8, .obj]
/-- the input dtypes of the property's quantifier -/
def DType.inputs : List DType := [.bool, .i8, .i16, .i32, .i64, .u8, .u16, .u32, .u64, .f32, .f64, .M8, .m8]
def Func.all : List Func :=
  [.any_, .all_, .count, .sum, .nansum, .prod, .nanprod, .mean, .nanmean, .var, .nanvar, .std, .nanstd, .max_, .nanmax,
   .min_, .nanmin, .argmax, .nanargmax, .argmin, .nanargmin, .first, .nanfirst, .last, .nanlast, .median, .nanmedian,
   .quantile, .nanquantile, .mode, .nanmode]
def UserD.all : List UserD := [.unset, .f32, .f64, .i64]
def FillK.all : List FillK := [.unset, .zero, .neg, .big, .nan]

def DType.toStr : DType → String
  | .bool => "bool" | .i8 => "int8" | .i16 => "int16" | .i32 => "int32" | .i64 => "int64"
  | .u8 => "uint8" | .u16 => "uint16" | .u32 => "uint32" | .u64 => "uint64" | .f32 => "float32" | .f64 => "float64"
  | .M8 => "datetime64[ns]" | .m8 => "timedelta64[ns]" | .obj => "object"

def DType.ofString? (s : String) : Option DType := DType.all.find? (·.toStr = s)

def Func.toStr : Func → String
  | .any_ => "any" | .all_ => "all" | .count => "count" | .sum => "sum" | .nansum => "nansum" | .prod => "prod"
  | .nanprod => "nanprod" | .mean => "mean" | .nanmean => "nanmean" | .var => "var" | .nanvar => "nanvar"
  | .std => "std" | .nanstd => "nanstd" | .max_ => "max" | .nanmax => "nanmax" | .min_ => "min" | .nanmin => "nanmin"
  | .argmax => "argmax" | .nanargmax => "nanargmax" | .argmin => "argmin" | .nanargmin => "nanargmin"
  | .first => "first" | .nanfirst => "nanfirst" | .last => "last" | .nanlast => "nanlast" | .median => "median"
  | .nanmedian => "nanmedian" | .quantile => "quantile" | .nanquantile => "nanquantile" | .mode => "mode"
  | .nanmode => "nanmode"

def Func.ofString? (s : String) : Option Func := Func.all.find? (·.toStr = s)

def UserD.toDType? : UserD → Option DType
  | .unset => none | .f32 => some .f32 | .f64 => some .f64 | .i64 => some .i64

def UserD.ofString? : String → Option UserD
  | "-" => some .unset | "float32" => some .f32 | "float64" => some .f64 | "int64" => some .i64 | _ => none

def FillK.ofString? : String → Option FillK
  | "-" => some .unset | "0" => some .zero | "-7" => some .neg | "1000000" => some .big | "nan" => some .nan | _ => none

/-- what `_initialize_aggregation` resolves: `agg.dtype["final" | "numpy" | "intermediate"]`
    (intermediates paired with the name of the chunk kernel that produces them) -/
structure DInit where
  final : DType
  numpy : List DType
  inter : List (String × DType)
deriving Repr, DecidableEq, Inhabited

/-- one cell of `_initialize_aggregation(func, user, arr, fill, min_count, {})`; `res = none` ⇒ it raised `err` -/
structure DRow where
  func : Func
  arr : DType
  user : UserD
  fill : FillK
  mcPos : Bool
  res : Option DInit
  err : String
deriving Repr, DecidableEq, Inhabited

/-- the table is indexed by (reduction, array dtype, `dtype=`); inside a cell rows are found by fill and min_count -/
abbrev DTable := Func → DType → UserD → List DRow

def findDRow (t : DTable) (f : Func) (arr : DType) (user : UserD) (fill : FillK) (mcPos : Bool) : Option DRow :=
  (t f arr user).find? fun r => r.fill = fill && r.mcPos = mcPos

/-! ### the entry / exit logic of `groupby_reduce` (hand-written from flox/core.py) -/

def Func.isArg : Func → Bool
  | .argmax | .nanargmax | .argmin | .nanargmin => true
  | _ => false

/-- `_is_minmax_reduction` -/
def Func.isMinMax : Func → Bool
  | .max_ | .nanmax | .min_ | .nanmin => true
  | _ => false

/-- `_is_first_last_reduction` -/
def Func.isFirstLast : Func → Bool
  | .first | .nanfirst | .last | .nanlast => true
  | _ => false

/-- `_is_bool_supported_reduction` -/
def Func.boolSupported : Func → Bool
  | .any_ | .all_ => true
  | _ => false

def DType.isDatetimeLike : DType → Bool
  | .M8 | .m8 => true
  | _ => false

/-- `requires_numeric` in `groupby_reduce`; `engFlox` ⇔ the `engine=` argument is literally `"flox"` -/
def requiresNumeric (f : Func) (engFlox : Bool) : Bool :=
  (f ≠ .count && f ≠ .any_ && f ≠ .all_ && !f.isFirstLast) || (f = .count && !engFlox)

/-- `min_count_` in `groupby_reduce` for a 1-D `by`: `minCount = none` ⇔ argument not given -/
def resolveMinCount (minCount : Option Nat) (fill : FillK) (expectedGiven : Bool) : Nat :=
  match minCount with
  | some m => m
  | none => if fill ≠ .unset && expectedGiven then 1 else 0

/-- `if _is_arg_reduction(func) and dtype is not None and np.dtype(dtype).kind not in "iu": raise ValueError` -/
def argFloatRefused (f : Func) (user : UserD) : Bool :=
  f.isArg && (user = .f32 || user = .f64)

/-- the dtype `groupby_reduce` gives its result, as a function of what the code looks at.
    `rowsOf` is the regenerated `_initialize_aggregation` table. `Except` carries the exception class. -/
def apiDtype (rowsOf : DTable) (f : Func) (d : DType) (user : UserD) (fill : FillK) (mcPos : Bool)
    (engFlox : Bool) : Except String DType :=
  if argFloatRefused f user then .error "ValueError" else
  -- `is_bool_array`: bool arrays become int for everything but any / all
  let isBoolArray := d = .bool && !f.boolSupported
  let arr1 := if isBoolArray then DType.i64 else d
  -- `requires_numeric`: datetime64 / timedelta64 are viewed as int64 when the reduction "requires numeric"
  let viewed := requiresNumeric f engFlox && arr1.isDatetimeLike
  let arr2 := if viewed then DType.i64 else arr1
  -- nansum / nanprod with a positive min_count and no fill get fill_value = NaN
  let fill' := if mcPos && (f = .nansum || f = .nanprod) && fill = .unset then FillK.nan else fill
  match findDRow rowsOf f arr2 user fill' mcPos with
  | none => .error "no-row"
  | some r =>
    match r.res with
    | none => .error r.err
    | some init =>
      -- every plan ends with `astype(agg.dtype["final"])` (`_finalize_results`)
      let res := init.final
      -- `if is_bool_array and (minmax or first/last) and dtype is None and (fill_value is None or
      --  isinstance(fill_value, bool)): result = result.astype(bool)` — none of the grid's fills is a `bool` instance
      let res := if isBoolArray && (f.isMinMax || f.isFirstLast) && user = .unset && fill = .unset then DType.bool else res
      -- `if requires_numeric and func != "count": if is_npdatetime: result = result.astype(datetime_dtype)`
      let res := if viewed && f ≠ .count then d else res
      .ok res

/-- the dtypes handed to the kernels: `agg.dtype["numpy"]` (eager / blockwise) and the intermediates (map-reduce / cohorts) -/
def apiInit (rowsOf : DTable) (f : Func) (d : DType) (user : UserD) (fill : FillK) (mcPos : Bool)
    (engFlox : Bool) : Option DInit :=
  let isBoolArray := d = .bool && !f.boolSupported
  let arr1 := if isBoolArray then DType.i64 else d
  let arr2 := if requiresNumeric f engFlox && arr1.isDatetimeLike then DType.i64 else arr1
  let fill' := if mcPos && (f = .nansum || f = .nanprod) && fill = .unset then FillK.nan else fill
  (findDRow rowsOf f arr2 user fill' mcPos).bind (·.res)

/-! ### the specification: NumPy's conventions, as the property words them -/

inductive Family where
  | logical      -- any, all                                   → bool
  | index        -- count, arg-reductions                      → platform integer
  | additive     -- sum, prod                                  → default-integer promotion
  | floating     -- mean, var, std, median                     → floating; a floating input keeps its width
  | quantile     -- quantile                                   → float64 (`np.quantile` with an array `q`)
  | select       -- min, max, first, last, mode                → the input dtype
deriving Repr, DecidableEq

def Func.family : Func → Family
  | .any_ | .all_ => .logical
  | .count | .argmax | .nanargmax | .argmin | .nanargmin => .index
  | .sum | .nansum | .prod | .nanprod => .additive
  | .mean | .nanmean | .var | .nanvar | .std | .nanstd | .median | .nanmedian => .floating
  | .quantile | .nanquantile => .quantile
  | .max_ | .nanmax | .min_ | .nanmin | .first | .nanfirst | .last | .nanlast | .mode | .nanmode => .select

def DType.isFloat : DType → Bool
  | .f32 | .f64 => true
  | _ => false

def DType.isSigned : DType → Bool
  | .i8 | .i16 | .i32 | .i64 => true
  | _ => false

def DType.isUnsigned : DType → Bool
  | .u8 | .u16 | .u32 | .u64 => true
  | _ => false

def DType.isInt (d : DType) : Bool := d.isSigned || d.isUnsigned

/-- NumPy's default result dtype of the reduction on an array of dtype `d` (no `dtype=`, no fill) -/
def npBase (f : Func) (d : DType) : DType :=
  match f.family with
  | .logical => .bool
  | .index => .i64
  | .additive => if d = .bool || d.isSigned then .i64 else if d.isUnsigned then .u64 else d
  | .floating => if d.isFloat || d.isDatetimeLike then d else .f64
  | .quantile => if d.isDatetimeLike then d else .f64
  | .select => d

/-- inclusive range of an integer dtype -/
def DType.range? : DType → Option (Int × Int)
  | .i8 => some (-128, 127) | .i16 => some (-32768, 32767) | .i32 => some (-2147483648, 2147483647)
  | .i64 => some (-9223372036854775808, 9223372036854775807)
  | .u8 => some (0, 255) | .u16 => some (0, 65535) | .u32 => some (0, 4294967295) | .u64 => some (0, 18446744073709551615)
  | _ => none

def FillK.int? : FillK → Option Int
  | .zero => some 0 | .neg => some (-7) | .big => some 1000000 | _ => none

/-- smallest integer dtype holding the value (`np.min_scalar_type` on a Python int: unsigned when non-negative) -/
def minScalar (v : Int) : DType :=
  if 0 ≤ v then (if v ≤ 255 then .u8 else if v ≤ 65535 then .u16 else if v ≤ 4294967295 then .u32 else .u64)
  else (if -128 ≤ v then .i8 else if -32768 ≤ v then .i16 else if -2147483648 ≤ v then .i32 else .i64)

/-- NumPy's promotion of a dtype with a Python scalar (NEP 50): the scalar is weak inside its own kind and pulls
    the dtype up to the default dtype of the scalar's kind otherwise. `none` = NumPy refuses (DTypePromotionError). -/
def weakPromote (d : DType) (k : FillK) : Option DType :=
  match k with
  | .unset => some d
  | .nan =>                                 -- a Python float
    if d.isFloat then some d else if d = .bool || d.isInt then some .f64 else none
  | _ =>                                    -- a Python int
    if d = .bool then some .i64 else if d.isInt || d.isFloat || d = .m8 then some d else none

/-- the dtype that can hold both arrays of dtype `b` and the requested fill: NumPy's `result_type`, where an integer
    fill that does not fit an integer `b` counts with its own smallest dtype (`promote` = NumPy's dtype × dtype table) -/
def holdFill (promote : DType → DType → Option DType) (b : DType) (k : FillK) : Option DType :=
  match k.int?, b.range? with
  | some v, some (lo, hi) => if lo ≤ v ∧ v ≤ hi then weakPromote b k else promote b (minScalar v)
  | _, _ => weakPromote b k

/-- **SPEC.** the dtype NumPy's conventions give the result of reduction `f` on input dtype `d` with `dtype=user`,
    `fill_value=fill`: the requested dtype, else the reduction's default, widened to hold the fill. -/
def npConvention (promote : DType → DType → Option DType) (f : Func) (d : DType) (user : UserD) (fill : FillK) :
    Option DType :=
  holdFill promote (user.toDType?.getD (npBase f d)) fill

/-- flox documents one more determinant: a positive `min_count` on nansum / nanprod without a `fill_value` asks for NaN
    in under-populated groups, i.e. acts as `fill_value = NaN` -/
def effFill (f : Func) (fill : FillK) (mcPos : Bool) : FillK :=
  if mcPos && (f = .nansum || f = .nanprod) && fill = .unset then .nan else fill

/-- the part of the grid on which NumPy has a convention at all: datetime-like inputs only for
    min / max / first / last / count / mean / median, without `dtype=` and without a fill -/
def inDomain (f : Func) (d : DType) (user : UserD) (fill : FillK) : Bool :=
  d ≠ .obj &&
  (!d.isDatetimeLike ||
    ((f.isMinMax || f.isFirstLast || f = .count || f = .mean || f = .nanmean || f = .median || f = .nanmedian)
      && user = .unset && fill = .unset))

/-- the one deviation left, visible in the table only (`mode` cannot run in this environment): a bool input is converted to
    int for `mode` / `nanmode` and never cast back -/
def boolModeDeviation (f : Func) (d : DType) (user : UserD) (fill : FillK) : Bool :=
  d = .bool && (f = .mode || f = .nanmode) && user = .unset && fill = .unset

def knownDeviation (f : Func) (d : DType) (user : UserD) (fill : FillK) : Bool :=
  boolModeDeviation f d user fill

def lookup2 (t : List (DType × DType × Option DType)) (a b : DType) : Option DType :=
  (t.find? fun r => r.1 = a && r.2.1 = b).bind (·.2.2)

/-! ### announced vs computed chunks along the group axis (`dask_groupby_agg` 1953-2010) -/

/-- map-reduce: `group_chunks = ((len(expected_groups),),)` -/
def announcedMapReduce (ngroups : Nat) : List Nat := [ngroups]

/-- cohorts: `tuple(len(c) for c in chunks_cohorts.values())` -/
def announcedCohorts (cs : List (List Nat × List Rat)) : List Nat := cs.map (·.2.length)

/-- blockwise without reindexing: number of distinct labels (codes, `-1` included) of every input block -/
def announcedBlockwise (sort : Bool) (chunks : List Nat) (keys : List Key) : List Nat :=
  (splitBy chunks keys).map fun ks =>
    (if sort then uniqSorted (presentKeys ks) else uniqFirst (presentKeys ks)).length

/-- the groups each output block of `method="blockwise"` really holds: `chunk_reduce` of that block -/
def computedBlockwise (eng : Eng) (ks : List Kernel) (fills : List Val) (sort : Bool) (chunks : List Nat)
    (keys : List Key) (vals : List Val) : List Nat :=
  ((splitBy chunks keys).zip (splitBy chunks vals)).map fun (kb, vb) =>
    (chunkReduce eng ks fills kb vb none sort).groups.length

end Flox
