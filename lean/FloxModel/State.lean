/-
  C14 – the process state flox keeps between calls, the names it gives to graph tasks, and merged graphs.

  * `Registry`   : `flox.aggregations.AGGREGATIONS` (reductions and scans), the stateful fields of each blueprint.
  * `specialise` : the writes `_initialize_aggregation` performs on the blueprint it works on (flox/aggregations.py:786-892);
                   `specialiseScan` the writes of `groupby_scan` (flox/core.py:3094, 3137-3148).
  * `initializeWith copy` : with `copy = true` the writes go to a deep copy (what the code does, see `Generated.copySites`),
                   with `copy = false` they would go to the registry entry / the user's object itself (the "what if" used
                   for the counterexamples).
  * `memoCall`   : `cachey.Cache.memoize(key=dask.base.tokenize)` / `functools.lru_cache`: a table keyed by the token of the
                   full argument tuple; entries may be evicted at any time.
  * `State`, `ApiCall`, `step`, `run` : a process history.  `pureResult` : what a call returns as a function of its arguments
                   and of the pristine registry only (the specification).
  * `Graph`, `eval`, `merge` : task graphs as finite maps key ↦ task, union = later insertion wins (dask merges the graphs of
                   all collections passed to one `dask.compute`).
  * `Ingredient`, `fieldsOfKind`, `meaningOfKind` : which call ingredients are hashed into the name of each kind of layer, and
                   which ones the layer's tasks depend on (read off flox/core.py:dask_groupby_agg, subset_to_blocks,
                   _extract_unknown_groups, dask_groupby_scan, flox/aggregations.py:argreduce_preprocess).
  Core Lean only.
-/
import FloxModel.Rechunk
import FloxModel.Tables

namespace Flox.State

/-! ## blueprints and the registry -/

/-- the fields of an `Aggregation` that `_initialize_aggregation` assigns or extends -/
structure Blueprint where
  name : String
  numpy : List String
  chunk : List String            -- `["None"]` is `(None,)` (no chunked implementation)
  combine : List String
  interFills : List String       -- fill_value["intermediate"]
  numpyFills : List String       -- fill_value["numpy"]   (absent until initialised)
  userFill : String              -- fill_value["user"]    ("unset" until initialised)
  finalFill : String             -- fill_value[name]
  minCount : Nat
  finalizeKwargs : List (String × String)
  isArg : Bool
deriving DecidableEq, Repr, Inhabited

/-- the fields of a `Scan` that `groupby_scan` assigns -/
structure ScanBp where
  name : String
  dtype : String                 -- "None" in the registry
  identity : String              -- "0", or the sentinel "NA"
deriving DecidableEq, Repr, Inhabited

structure Registry where
  aggs : List (String × Blueprint)
  scans : List (String × ScanBp)
deriving DecidableEq, Repr

def Blueprint.ofRow (r : RegistryRow) : Blueprint :=
  { name := r.name, numpy := r.numpy, chunk := r.chunk, combine := r.combine, interFills := r.fills, numpyFills := [],
    userFill := "unset", finalFill := r.finalFill, minCount := 0, finalizeKwargs := [],
    isArg := r.reductionType == "argreduce" }

def ScanBp.ofRow (r : ScanRow) : ScanBp := { name := r.name, dtype := "None", identity := r.identity }

def Registry.ofRows (rows : List RegistryRow) (scans : List ScanRow) : Registry :=
  { aggs := rows.map fun r => (r.key, Blueprint.ofRow r), scans := scans.map fun r => (r.key, ScanBp.ofRow r) }

/-- `func` as the caller passes it -/
inductive FuncArg
  | named (f : String)
  | user (bp : Blueprint)
deriving DecidableEq, Repr

/-- the arguments of `_initialize_aggregation` that reach the stateful fields (`fill` is the caller's fill_value as text,
    `resolvedFinal` the dtype-resolved final fill, both opaque here) -/
structure InitArgs where
  func : FuncArg
  fill : String
  resolvedFinal : String
  minCount : Nat
  fk : Option (List (String × String))
deriving DecidableEq, Repr

/-- the assignments of `_initialize_aggregation` on the object `agg` (flox/aggregations.py:842-892), in order -/
def specialise (bp : Blueprint) (a : InitArgs) : Blueprint :=
  -- agg.fill_value["user"] = fill_value ; agg.fill_value[func] = resolved ; agg.fill_value["numpy"] = ...
  let bp := { bp with userFill := a.fill, finalFill := a.resolvedFinal,
                      numpyFills := if bp.isArg then ["0"] else [a.resolvedFinal] }
  -- if finalize_kwargs is not None: agg.finalize_kwargs = finalize_kwargs
  let bp := match a.fk with
    | some kw => { bp with finalizeKwargs := kw }
    | none => bp
  -- nanmin / nanmax with min_count == 0: min_count = 1 and the default fill becomes the user's
  let hack := (bp.name == "nanmin" || bp.name == "nanmax") && a.minCount == 0
  let mc := if hack then 1 else a.minCount
  let bp := if hack && bp.userFill == "None" then { bp with userFill := bp.finalFill } else bp
  if mc > 0 then
    { bp with minCount := mc, numpy := bp.numpy ++ ["nanlen"],
              chunk := if bp.chunk = ["None"] then bp.chunk else bp.chunk ++ ["nanlen"],
              combine := if bp.chunk = ["None"] then bp.combine else bp.combine ++ ["sum"],
              interFills := bp.interFills ++ ["0"], numpyFills := bp.numpyFills ++ ["0"] }
  else { bp with minCount := 0 }

/-- association-list update (Python: the registry entry IS the object written to) -/
def replaceKey {β} (k : String) (v : β) : List (String × β) → List (String × β)
  | [] => []
  | (k', v') :: rest => if k' = k then (k', v) :: rest else (k', v') :: replaceKey k v rest

/-- outcome of one blueprint initialisation: the specialised blueprint handed to the computation, and the caller's own
    `Aggregation` object as it is after the call (when one was passed) -/
structure InitResult where
  agg : Option Blueprint
  userAfter : Option Blueprint
deriving DecidableEq, Repr

def initializeWith (copy : Bool) (reg : Registry) (a : InitArgs) : Registry × InitResult :=
  match a.func with
  | .named f =>
    match reg.aggs.lookup f with
    | none => (reg, ⟨none, none⟩)                            -- NotImplementedError
    | some bp =>
      let r := specialise bp a
      (if copy then reg else { reg with aggs := replaceKey f r reg.aggs }, ⟨some r, none⟩)
  | .user bp =>
    let r := specialise bp a
    (reg, ⟨some r, some (if copy then bp else r)⟩)

/-- `groupby_scan`: `agg = copy.deepcopy(AGGREGATIONS[func]); agg.dtype = …; agg.identity = _get_fill_value(agg.dtype, agg.identity)` -/
def specialiseScan (bp : ScanBp) (dtype : String) : ScanBp :=
  { bp with dtype := dtype, identity := if bp.identity = "NA" then "NA@" ++ dtype else bp.identity }

def scanInitWith (copy : Bool) (reg : Registry) (f : String) (dtype : String) : Registry × Option ScanBp :=
  match reg.scans.lookup f with
  | none => (reg, none)
  | some bp =>
    let r := specialiseScan bp dtype
    (if copy then reg else { reg with scans := replaceKey f r reg.scans }, some r)

/-! ## memo tables -/

/-- a memoised call: table keyed by `key a` (the token of the full argument tuple) -/
def memoCall {α κ β} [BEq κ] (key : α → κ) (f : α → β) (tbl : List (κ × β)) (a : α) : List (κ × β) × β :=
  match tbl.lookup (key a) with
  | some b => (tbl, b)
  | none => ((key a, f a) :: tbl, f a)

/-- cachey drops low-score entries when the cache is full; lru_cache drops the oldest: any subset may survive -/
def evict {κ β} (keep : κ → Bool) (tbl : List (κ × β)) : List (κ × β) := tbl.filter fun e => keep e.1

/-! ## `flox.dask_array_ops.get_parts` (lru_cache) -/

/-- `toolz.partition_all n xs` -/
def partitionAll {α} (n : Nat) (xs : List α) : List (List α) :=
  if n = 0 then [xs] else go n xs.length xs
where
  go (n : Nat) : Nat → List α → List (List α)
    | 0, _ => []
    | _, [] => []
    | fuel + 1, xs => xs.take n :: go n fuel (xs.drop n)

/-- `get_parts(split_every_items, chunks)` → (`parts`, `out_chunks`); `keys` is the index product of `parts` -/
def getParts (se : List (Nat × Nat)) (chunks : List (List Nat)) : List (List (List Nat)) × List (List Nat) :=
  let idx := List.range chunks.length
  let parts := (idx.zip chunks).map fun (i, c) => partitionAll ((se.lookup i).getD 1) (List.range c.length)
  let out := (idx.zip chunks).map fun (i, c) =>
    match se.lookup i with
    | some k => (partitionAll k c).map fun _ => 1
    | none => c
  (parts, out)

/-! ## process state and histories -/

abbrev ChunkKey := List Nat × List Nat
abbrev PartsKey := List (Nat × Nat) × List (List Nat)
abbrev PartsVal := List (List (List Nat)) × List (List Nat)

structure State where
  registry : Registry
  chunkCache : List (ChunkKey × List Nat)
  partsCache : List (PartsKey × PartsVal)
deriving Repr

inductive ApiCall
  | init (a : InitArgs)                                   -- any call that specialises a reduction blueprint
  | scanInit (f : String) (dtype : String)                -- groupby_scan
  | optimalChunks (chunks labels : List Nat)              -- _get_optimal_chunks_for_groups via rechunk_for_blockwise
  | getParts (se : List (Nat × Nat)) (chunks : List (List Nat))
  | evictChunks (keepLen : Nat)                           -- the cache drops every entry whose label vector is longer than keepLen
  | evictParts (keepLen : Nat)
deriving Repr

inductive ApiResult
  | init (r : InitResult)
  | scan (r : Option ScanBp)
  | chunks (c : List Nat)
  | parts (p : PartsVal)
  | unit
deriving DecidableEq, Repr

def optimalFn (k : ChunkKey) : List Nat := Rechunk.optimal k.1 k.2
def partsFn (k : PartsKey) : PartsVal := getParts k.1 k.2

/-- one API call in state `s` (`copy`: whether blueprints are deep-copied before being written to) -/
def stepWith (copy : Bool) (s : State) : ApiCall → State × ApiResult
  | .init a =>
    let (reg, r) := initializeWith copy s.registry a
    ({ s with registry := reg }, .init r)
  | .scanInit f d =>
    let (reg, r) := scanInitWith copy s.registry f d
    ({ s with registry := reg }, .scan r)
  | .optimalChunks c l =>
    let (tbl, r) := memoCall id optimalFn s.chunkCache (c, l)
    ({ s with chunkCache := tbl }, .chunks r)
  | .getParts se c =>
    let (tbl, r) := memoCall id partsFn s.partsCache (se, c)
    ({ s with partsCache := tbl }, .parts r)
  | .evictChunks n => ({ s with chunkCache := evict (fun k => k.2.length ≤ n) s.chunkCache }, .unit)
  | .evictParts n => ({ s with partsCache := evict (fun k => k.2.length ≤ n) s.partsCache }, .unit)

def runWith (copy : Bool) (s : State) (cs : List ApiCall) : State := cs.foldl (fun s c => (stepWith copy s c).1) s

/-- results of all calls of a history, in order -/
def traceWith (copy : Bool) : State → List ApiCall → List ApiResult
  | _, [] => []
  | s, c :: cs => (stepWith copy s c).2 :: traceWith copy (stepWith copy s c).1 cs

/-- SPECIFICATION: what a call returns, as a function of its arguments and the pristine registry alone -/
def pureResult (reg : Registry) : ApiCall → ApiResult
  | .init a =>
    match a.func with
    | .named f => .init ⟨(reg.aggs.lookup f).map (specialise · a), none⟩
    | .user bp => .init ⟨some (specialise bp a), some bp⟩
  | .scanInit f d => .scan ((reg.scans.lookup f).map (specialiseScan · d))
  | .optimalChunks c l => .chunks (Rechunk.optimal c l)
  | .getParts se c => .parts (getParts se c)
  | .evictChunks _ => .unit
  | .evictParts _ => .unit

def fresh (reg : Registry) : State := { registry := reg, chunkCache := [], partsCache := [] }

/-! ## task graphs and their union -/

/-- a task: an operation (opaque identifier of the callable together with its literal arguments) applied to other keys -/
structure Task (κ ω : Type) where
  op : ω
  deps : List κ
deriving DecidableEq, Repr

/-- a graph is a finite map; the FIRST binding of a key is the live one -/
abbrev Graph (κ ω : Type) := List (κ × Task κ ω)

/-- `dask.compute(r₁, r₂)` merges the graphs by dictionary update: the later insertion (`g₂`) wins -/
def merge {κ ω} (g₁ g₂ : Graph κ ω) : Graph κ ω := g₂ ++ g₁

/-- evaluation with fuel (depth bound); `sem op args` is the value of the callable -/
def eval {κ ω V} [BEq κ] (sem : ω → List V → V) (g : Graph κ ω) : Nat → κ → Option V
  | 0, _ => none
  | n + 1, k =>
    match g.lookup k with
    | none => none
    | some t => (t.deps.mapM (eval sem g n)).map (sem t.op)

/-- two graphs agree on the keys they share -/
def Compatible {κ ω} [BEq κ] (g₁ g₂ : Graph κ ω) : Prop :=
  ∀ k t₁ t₂, g₁.lookup k = some t₁ → g₂.lookup k = some t₂ → t₁ = t₂

def compatibleB {κ ω} [BEq κ] [BEq ω] (g₁ g₂ : Graph κ ω) : Bool :=
  g₁.all fun (k, _) => match g₁.lookup k, g₂.lookup k with
    | some t₁, some t₂ => t₁.op == t₂.op && t₁.deps == t₂.deps
    | _, _ => true

/-- an injective semantics on numbers used by the driver and the examples: the value of a task is a code of the whole
    expression tree below it (`pair`-style, not collision free in general; the theorems hold for EVERY semantics) -/
def codeSem (op : Nat) (args : List Nat) : Nat := args.foldl (fun acc a => acc * 1000003 + a + 1) (op + 1)

/-! ## names: which ingredients of a call are hashed into each kind of layer name -/

inductive Ingredient
  | array | labels | func | fk | minCount | fill | dtype | method | engine | sort | reindex | expected | chunks
deriving DecidableEq, Repr

def Ingredient.all : List Ingredient :=
  [.array, .labels, .func, .fk, .minCount, .fill, .dtype, .method, .engine, .sort, .reindex, .expected, .chunks]

def Ingredient.ofString? : String → Option Ingredient
  | "array" => some .array | "labels" => some .labels | "func" => some .func | "fk" => some .fk
  | "min_count" => some .minCount | "fill" => some .fill | "dtype" => some .dtype | "method" => some .method
  | "engine" => some .engine | "sort" => some .sort | "reindex" => some .reindex | "expected" => some .expected
  | "chunks" => some .chunks | _ => none

/-- kinds of layers / task-key families in the graphs flox builds (name with the content token removed) -/
inductive Kind
  | values        -- `array-#`            dask.array.from_array of the value array (the caller's collection)
  | codes         -- `array-#`            from_array of the factorised labels / the caller's dask labels
  | rechunk       -- `rechunk-merge-#` / `rechunk-split-#` / `concatenate-#` (rechunk_for_blockwise)
  | lazyCodes     -- `_lazy_factorize_wrapper-#`, `_ravel_factorized-#` (dask labels with expected_groups)
  | argIndex      -- `arange-#`           index zipped with the values for arg-reductions
  | argPre        -- `groupby-argreduce-preprocess-#`
  | chunk         -- `groupby_F-chunk-#`
  | combine       -- `groupby_F-simple-reduce-partial-#`, `…-aggregate-#`
  | cohortSubset  -- `groupby-cohort-#`
  | cohortReduce  -- `groupby_F-reduce-cohorts-#` and its `-i-partial-l` levels
  | reshape       -- `reshape-groupby_F-chunk-#`
  | result        -- `groupby_F-#`
  | groups        -- `group-groupby_F-…-#`
  | post          -- `getitem-#`, `shuffle-taker-#`, `setitem-#`, `astype-#` … applied by groupby_reduce to the result
  | scanRev       -- scans: `array-#` of the label codes and the `getitem-#` by which bfill reverses values and codes first
  | scanPre       -- `groupby-scan-preprocess-#`
  | scanBody      -- `chunk_scan-#`, `grouped_reduce-#`, `_finalize_scan-#` … and the final reversal / cast
deriving DecidableEq, Repr

def Kind.all : List Kind :=
  [.values, .codes, .rechunk, .lazyCodes, .argIndex, .argPre, .chunk, .combine, .cohortSubset, .cohortReduce, .reshape,
   .result, .groups, .post, .scanRev, .scanPre, .scanBody]

def Kind.ofString? : String → Option Kind
  | "values" => some .values | "codes" => some .codes | "rechunk" => some .rechunk | "lazyCodes" => some .lazyCodes
  | "argIndex" => some .argIndex | "argPre" => some .argPre | "chunk" => some .chunk | "combine" => some .combine
  | "cohortSubset" => some .cohortSubset | "cohortReduce" => some .cohortReduce | "reshape" => some .reshape
  | "result" => some .result | "groups" => some .groups | "post" => some .post | "scanRev" => some .scanRev
  | "scanPre" => some .scanPre | "scanBody" => some .scanBody | _ => none

def scanFields : List Ingredient := [.array, .labels, .chunks, .func, .expected, .sort]

/-- the ingredients hashed (directly or through the names of the collections they are built from) into the names of a kind.
    An ingredient outside this list CANNOT change such a name. -/
def fieldsOfKind : Kind → List Ingredient
  | .values => [.array, .chunks]
  | .codes => [.labels, .chunks, .expected, .sort, .method]       -- codes = factorize(labels, expected, sort), chunked like the
                                                                  -- values (which method='blockwise' rechunks first)
  | .rechunk => [.array, .labels, .chunks, .expected, .sort, .method]
  | .lazyCodes => [.labels, .chunks, .expected, .sort, .method]
  | .argIndex => [.chunks]
  | .argPre => [.array, .chunks]                                  -- tokenize(array, axis)
  | .scanRev => scanFields
  | .scanPre => scanFields                                        -- tokenize(by, array); bfill reverses both first
  | .scanBody => scanFields ++ [.dtype]
  | _ => Ingredient.all                                           -- everything named with dask_groupby_agg's `token`

/-- the ingredients a task of that kind depends on (its callable's closure, or through the tasks it reads).
    Changing one of them (to a value that is not equivalent) changes what the task computes. -/
def meaningOfKind : Kind → List Ingredient
  | .values => [] | .codes => [] | .rechunk => [] | .lazyCodes => [] | .post => [] | .scanRev => []  -- dask names these by content
  | .argIndex => [.chunks]
  | .argPre => [.array, .chunks]
  | .scanPre => [.array, .labels, .chunks]
  | .scanBody => [.array, .labels, .chunks, .func, .dtype]
  | _ => Ingredient.all

/-- the kinds whose tasks a task of kind `k` reads -/
def depsOfKind : Kind → List Kind
  | .values => [] | .codes => [] | .argIndex => []
  | .rechunk => [.values]
  | .lazyCodes => [.codes]
  | .argPre => [.values, .argIndex]
  | .chunk => [.values, .codes, .rechunk, .lazyCodes, .argPre]
  | .combine => [.chunk, .combine]
  | .cohortSubset => [.chunk]
  | .cohortReduce => [.cohortSubset, .cohortReduce]
  | .reshape => [.chunk]
  | .result => [.chunk, .combine, .cohortReduce, .reshape]
  | .groups => [.combine]
  | .post => [.result, .groups, .post]
  | .scanRev => [.values]
  | .scanPre => [.values, .scanRev]
  | .scanBody => [.scanPre, .scanBody]

/-- every ingredient a task depends on is hashed into its name, and so is everything hashed into the names it reads -/
def tokenCovers : Bool :=
  Kind.all.all fun k =>
    (meaningOfKind k).all (fun i => (fieldsOfKind k).contains i) &&
    (depsOfKind k).all fun d => (fieldsOfKind d).all fun i => (fieldsOfKind k).contains i

/-- a configuration: the value (an opaque number) of every ingredient -/
abbrev Config := Ingredient → Nat

abbrev LayerKey := Kind × List Nat
abbrev LayerOp := Kind × List Nat

/-- the name of a layer of kind `k` under configuration `c`: the kind and the values of the hashed ingredients
    (tokens are modelled as injective) -/
def layerName (c : Config) (k : Kind) : LayerKey := (k, (fieldsOfKind k).map c)

/-- what the tasks of that kind compute: the kind and the values of the ingredients they depend on, applied to the names they read -/
def layerTask (c : Config) (k : Kind) : Task LayerKey LayerOp :=
  { op := (k, (meaningOfKind k).map c), deps := (depsOfKind k).map (layerName c) }

/-- the graph of one lazy result (one task per kind; blocks of a layer share their name and differ by index only) -/
def configGraph (c : Config) : Graph LayerKey LayerOp := Kind.all.map fun k => (layerName c k, layerTask c k)

/-- one row of the generated table `Generated.tokenRows`: two lazy results built with the real API that differ in one
    ingredient; for one kind of layer, whether the sets of names are equal / disjoint -/
structure TokenRow where
  base : String
  ingredient : String
  kind : String
  same : Bool
  disjoint : Bool
deriving DecidableEq, Repr

/-- a measured row agrees with `fieldsOfKind` / `meaningOfKind` -/
def TokenRow.ok (r : TokenRow) : Bool :=
  match Ingredient.ofString? r.ingredient, Kind.ofString? r.kind with
  | some i, some k =>
    (if (fieldsOfKind k).contains i then true else r.same) &&
    (if (meaningOfKind k).contains i then r.disjoint else true)
  | _, _ => false

/-- `Generated.copySites`: (site, the blueprint / object is copied before being written to) -/
abbrev CopySite := String × Bool

end Flox.State
