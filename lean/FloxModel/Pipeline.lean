/-
  Model of flox's block / combine / finalize pipeline for a 1-D reduction
  (`flox/core.py`: `factorize_`, `chunk_reduce`, `chunk_argreduce`, `_simple_combine`,
  `_grouped_combine`, `reindex_intermediates`, `_finalize_results`, `_reduce_blockwise`,
  `dask_groupby_agg` (map-reduce / cohorts / blockwise) and the post-processing in `groupby_reduce`).

  The model works after `_factorize_multiple`: labels are integer codes `0..ngroups-1`, `-1` = dropped.
  Keys inside the pipeline are `Option Rat` (`none` = a NaN label) because with `reindex=False` the code `-1`
  is carried as an ordinary group label until the final reindex, while for labels unknown until compute time
  the raw labels themselves flow through.
-/
import FloxModel.Engines

namespace Flox

abbrev Key := Option Rat

/-- one block's `{"groups": …, "intermediates": …}` -/
structure Inter where
  groups : List Key
  cols : List (List Val)
deriving Repr, DecidableEq, Inhabited

/-- a per-call specialised aggregation: the fields `_initialize_aggregation` resolves -/
structure Resolved where
  name : String
  numpy : List Kernel
  chunk : List Kernel        -- [] when the blueprint has `chunk=None` (blockwise only)
  combine : List Kernel
  interFills : List Val
  numpyFills : List Val
  finalFill : Option Val
  userFill : Option Val
  minCount : Nat
  finalize : String          -- "none" | "mean" | "var" | "std" | "second"
  ddof : Nat
  isArg : Bool
deriving Repr, Inhabited

/-! ### small list utilities (sorted unique, first-appearance unique) -/

def insertSorted (x : Rat) : List Rat → List Rat
  | [] => [x]
  | y :: ys => if x < y then x :: y :: ys else if x = y then y :: ys else y :: insertSorted x ys

def uniqSorted (xs : List Rat) : List Rat := xs.foldr insertSorted []

def uniqFirst (xs : List Rat) : List Rat :=
  xs.foldl (fun acc x => if acc.contains x then acc else acc ++ [x]) []

def indexOf? (x : Rat) : List Rat → Option Nat
  | [] => none
  | y :: ys => if x = y then some 0 else (indexOf? x ys).map (· + 1)

def presentKeys (keys : List Key) : List Rat := keys.filterMap id

/-- `factorize_` as used inside `chunk_reduce`: with a RangeIndex of size `n` the key is its own code
    (codes above the range become -1); without, `pd.factorize(sort=sort)`; NaN ↦ -1. -/
def factorizeKeys (keys : List Key) (expected : Option Nat) (sort : Bool) : List Rat × List Int :=
  match expected with
  | some n =>
    let found := (List.range n).map fun (i : Nat) => (i : Rat)
    let codes := keys.map fun k =>
      match k with
      | none => (-1 : Int)
      | some r => if r ≤ ((n : Rat) - 1) ∧ 0 ≤ r ∧ r.den = 1 then r.num else -1
    (found, codes)
  | none =>
    let pres := presentKeys keys
    let found := if sort then uniqSorted pres else uniqFirst pres
    let codes := keys.map fun k =>
      match k with
      | none => (-1 : Int)
      | some r => match indexOf? r found with
        | some i => (i : Int)
        | none => -1
    (found, codes)

/-- positions (within the block) of the members of group `g` -/
def memberPos (g : Int) (codes : List Int) : List Nat :=
  (codes.zipIdx).filterMap fun (c, i) => if c = g then some i else none

/-- arg kernels return the *block position* of the first extreme among the group's members
    (numpy_groupies contract; nanarg* drop NaN members first; no member ↦ fill). -/
def argGrouped (k : Kernel) (codes : List Int) (vals : List Val) (size : Nat) (fill : Val) : List Val :=
  (List.range size).map fun (g : Nat) =>
    let pos := memberPos (Int.ofNat g) codes
    let pv := pos.map fun i => (i, vals.getD i Val.nan)
    let pv' := if k.skipsNaN then pv.filter (fun p => !p.2.isNaN) else pv
    if pv'.isEmpty then fill
    else
      let j := match kEval k (pv'.map (·.2)) with
        | .fin q => q.num.toNat
        | _ => 0
      Val.ofNat ((pv'.getD j (0, Val.nan)).1)

def isArgKernel : Kernel → Bool
  | .argmax | .argmin | .nanargmax | .nanargmin => true
  | _ => false

def engineCall (eng : Eng) (k : Kernel) (codes : List Int) (vals : List Val) (size : Nat) (fill : Val) : List Val :=
  if isArgKernel k then argGrouped k codes vals size fill else engGrouped eng k codes vals size fill

/-- `chunk_reduce` on one 1-D block. `expected = some n` ⇔ `reindex=True` with `RangeIndex(n)`. -/
def chunkReduce (eng : Eng) (ks : List Kernel) (fills : List Val) (keys : List Key) (vals : List Val)
    (expected : Option Nat) (sort : Bool) : Inter :=
  let (found, codes) := factorizeKeys keys expected sort
  let ngroups := found.length
  let hasnan := codes.any (· == -1)
  let empty := codes.all (· == -1)
  let size := if hasnan then ngroups + 1 else ngroups
  let codes' := codes.map fun c => if c == -1 then (ngroups : Int) else c
  let groups : List Key :=
    match expected with
    | some _ => found.map some
    | none => if empty then [none] else found.map some
  let cols := (ks.zip fills).map fun (k, fv) =>
    if empty then List.replicate groups.length fv
    else (engineCall eng k codes' vals size fv).take ngroups
  { groups := groups, cols := cols }

def allNull (groups : List Key) : Bool := groups.all (·.isNone)

/-- `chunk_argreduce`: block positions are mapped to global indices through the zipped index array. -/
def chunkArgreduce (eng : Eng) (ks : List Kernel) (fills : List Val) (keys : List Key)
    (vals : List Val) (idxs : List Val) (sort : Bool) : Inter :=
  let r := chunkReduce eng ks fills keys vals none sort
  if allNull r.groups then r
  else
    let cols := r.cols.mapIdx fun j col =>
      if j = 1 then col.map fun p =>
        match p with
        | .fin q => idxs.getD q.num.toNat Val.nan
        | _ => Val.nan
      else col
    { r with cols := cols }

/-! ### reindexing -/

def lookupKey (g : Key) (groups : List Key) : Option Nat :=
  match groups with
  | [] => none
  | h :: t => if h = g then some 0 else (lookupKey g t).map (· + 1)

/-- `reindex_` of one column from `from_` to `to` (pandas `get_indexer`; NaN matches NaN).
    `none` result = `ValueError("Filling is required…")`. -/
def reindexCol (col : List Val) (from_ to : List Key) (fill : Option Val) : Option (List Val) :=
  if from_.isEmpty then some (to.map fun _ => fill.getD Val.nan)
  else if from_ = to then some col
  else
    to.mapM fun g =>
      match lookupKey g from_ with
      | some i => some (col.getD i Val.nan)
      | none => fill

def uniqueGroups (xs : List Inter) : List Key :=
  let pres := uniqSorted (presentKeys (xs.flatMap (·.groups)))
  if pres.isEmpty then [none] else pres.map some

/-- `reindex_intermediates` -/
def reindexInter (fills : List Val) (to : List Key) (x : Inter) : Inter :=
  { groups := to,
    cols := (x.cols.zip fills).map fun (c, f) => (reindexCol c x.groups to (some f)).getD [] }

/-! ### combine -/

def colAt (x : Inter) (j : Nat) : List Val := x.cols.getD j []

/-- `_simple_combine`: stack equally-shaped intermediates along a dummy axis and reduce it. -/
def simpleCombine (R : Resolved) (reindexBlockwise : Bool) (xs : List Inter) : Inter :=
  let groups := if reindexBlockwise then (xs.headD default).groups else uniqueGroups xs
  let xs' := if reindexBlockwise then xs else xs.map (reindexInter R.interFills groups)
  { groups := groups,
    cols := R.combine.mapIdx fun j k =>
      (List.range groups.length).map fun gi => kEval k (xs'.map fun x => (colAt x j).getD gi Val.nan) }

/-- `_grouped_combine` (single reduced axis): concatenate groups and intermediates in block order and
    run the block reduction again with the combine kernels. -/
def groupedCombine (R : Resolved) (eng : Eng) (sort : Bool) (xs : List Inter) : Inter :=
  let groups := xs.flatMap (·.groups)
  let cat (j : Nat) : List Val := xs.flatMap (colAt · j)
  if R.isArg then
    let hasCount := R.chunk.getLast? = some Kernel.nanlen
    let ks := if hasCount then R.combine.dropLast else R.combine
    let fs := if hasCount then R.interFills.dropLast else R.interFills
    let v := cat 0
    let ix := cat 1
    let avoid := v.length = 1
    let base : Inter :=
      if avoid then { groups := groups, cols := [v, ix] }
      else chunkArgreduce eng ks fs groups v ix sort
    if hasCount then
      let counts := cat 2
      if avoid then { base with cols := base.cols ++ [counts] }
      else
        let c := chunkReduce eng [Kernel.sum] [Val.zero] groups counts none sort
        { base with cols := base.cols ++ [colAt c 0] }
    else base
  else
    let rs := (R.combine.zip R.interFills).mapIdx fun j (k, fv) =>
      chunkReduce eng [k] [fv] groups (cat j) none sort
    { groups := (rs.getLastD default).groups, cols := rs.map (colAt · 0) }

/-! ### finalize -/

def finalizeVals (R : Resolved) (cols : List (List Val)) : List Val :=
  match R.finalize with
  | "mean" => List.zipWith Val.div (cols.getD 0 []) (cols.getD 1 [])
  | "var" | "std" =>
    let sumsq := cols.getD 0 []
    let sums := cols.getD 1 []
    let cnts := cols.getD 2 []
    (sumsq.zip (sums.zip cnts)).map fun (sq, s, c) =>
      let r := Val.div (Val.sub sq (Val.div (Val.mul s s) c)) (Val.sub c (Val.ofNat R.ddof))
      match c with
      | .fin q => if q ≤ (R.ddof : Rat) then Val.nan else r
      | _ => r
  | "second" => cols.getD 1 []
  | _ => cols.getD 0 []

def countBelow (c : Val) (m : Nat) : Bool :=
  match c with
  | .fin q => decide (q < (m : Rat))
  | _ => false

/-- `_finalize_results`; `Except` carries the two `ValueError("Filling is required…")` sites. -/
def finalizeResults (R : Resolved) (x : Inter) (expected : Option (List Key)) (reindexBlockwise : Bool) :
    Except String (List Key × List Val) :=
  let (cols, counts) :=
    if R.minCount > 0 then (x.cols.dropLast, x.cols.getLastD []) else (x.cols, [])
  let vals := finalizeVals R cols
  let masked : Except String (List Val) :=
    if R.minCount > 0 then
      let mask := counts.map (countBelow · R.minCount)
      if mask.any id then
        match R.userFill with
        | none => .error "ValueError"
        | some f => .ok ((vals.zip mask).map fun (v, m) => if m then f else v)
      else .ok vals
    else .ok vals
  match masked with
  | .error e => .error e
  | .ok vals =>
    match expected, reindexBlockwise with
    | some ex, false =>
      match reindexCol vals x.groups ex R.userFill with
      | some v => .ok (ex, v)
      | none => .error "ValueError"
    | _, _ => .ok (x.groups, vals)

/-! ### chunking and tree reduction -/

def splitBy {α} : List Nat → List α → List (List α)
  | [], _ => []
  | n :: ns, xs => xs.take n :: splitBy ns (xs.drop n)

def partitionAll {α} (k : Nat) (xs : List α) : List (List α) :=
  if h : k = 0 ∨ xs = [] then (if xs = [] then [] else [xs])
  else xs.take k :: partitionAll k (xs.drop k)
termination_by xs.length
decreasing_by
  have hk : k ≠ 0 := fun e => h (Or.inl e)
  have hx : xs ≠ [] := fun e => h (Or.inr e)
  have : 0 < xs.length := List.length_pos_iff.mpr hx
  simp only [List.length_drop]
  omega

/-- smallest `d` with `k^d ≥ n` (`⌈log_k n⌉`), at least 1 -/
def ceilLog (k n : Nat) : Nat :=
  let rec go (fuel d p : Nat) : Nat :=
    match fuel with
    | 0 => d
    | fuel + 1 => if p ≥ n then d else go fuel (d + 1) (p * k)
  Nat.max 1 (go n 0 1)

/-- the tree both `dask.array.reductions._tree_reduce` and `flox.dask_array_ops._tree_reduce` build:
    `depth-1` rounds of `partition_all(split_every)` + combine, then the aggregate on what is left. -/
def treeReduce (combine : List Inter → Inter) (k : Nat) (blocks : List Inter) : List Inter :=
  let depth := ceilLog (Nat.max k 2) blocks.length
  (List.range (depth - 1)).foldl (fun cur _ => (partitionAll (Nat.max k 2) cur).map combine) blocks

/-! ### plans -/

inductive Plan where
  | eager
  | mapreduce (reindexBlockwise : Bool)
  | cohorts (cs : List (List Nat × List Rat))     -- (block indices, labels) per cohort, in dict order
  | blockwise (reindexBlockwise : Bool)
deriving Repr

structure Call where
  R : Resolved
  eng : Eng
  sort : Bool
  ngroups : Nat                 -- size of `expected_` = RangeIndex(ngroups)
  knownLabels : Bool            -- false: dask labels without expected_groups (labels discovered at compute time)
  fillArg : Option Val          -- the `fill_value` argument used by the final reindex in `groupby_reduce`
  splitEvery : Nat
deriving Repr

def useGroupedCombine (c : Call) (floatData : Bool) : Bool :=
  c.R.isArg || !c.knownLabels || ((c.R.name = "nanfirst" || c.R.name = "nanlast" || c.R.name = "first" || c.R.name = "last") && !floatData)

def rangeKeys (n : Nat) : List Key := (List.range n).map fun (i : Nat) => some (i : Rat)

def offsets (chunks : List Nat) : List Nat :=
  (chunks.foldl (fun (acc : List Nat × Nat) c => (acc.1 ++ [acc.2], acc.2 + c)) ([], 0)).1

/-- block stage of `dask_groupby_agg` for map-reduce / cohorts -/
def blockStage (c : Call) (reindexBlockwise : Bool) (chunks : List Nat) (keys : List Key) (vals : List Val) :
    List Inter :=
  let kb := splitBy chunks keys
  let vb := splitBy chunks vals
  let offs := offsets chunks
  let expected := if reindexBlockwise then some c.ngroups else none
  (kb.zip (vb.zip (offs.zip chunks))).map fun (ks, vs, off, n) =>
    if c.R.isArg then
      chunkArgreduce c.eng c.R.chunk c.R.interFills ks vs ((List.range n).map fun i => Val.ofNat (off + i)) c.sort
    else chunkReduce c.eng c.R.chunk c.R.interFills ks vs expected c.sort

def sortPairs (gs : List Key) (vs : List Val) : List Key × List Val :=
  -- `np.argsort(groups)` (stable; NaN last) applied to both
  let keyLe (a b : Key × Val) : Bool :=
    match a.1, b.1 with
    | some x, some y => decide (x ≤ y)
    | some _, none => true
    | none, some _ => false
    | none, none => true
  let sorted := (gs.zip vs).mergeSort keyLe
  (sorted.map (·.1), sorted.map (·.2))

/-- final step of `groupby_reduce` when labels were factorised early: reindex to `RangeIndex(ngroups)` -/
def finalReindex (c : Call) (isBlockwise : Bool) (gs : List Key) (vs : List Val) : Except String (List Val) :=
  let (gs, vs) :=
    if isBlockwise && (gs.filter (· = some (-1))).length > 1 then
      ((gs.zip vs).filter (fun p => p.1 ≠ some (-1))).unzip
    else (gs, vs)
  match reindexCol vs gs (rangeKeys c.ngroups) c.fillArg with
  | some v => .ok v
  | none => .error "ValueError"

/-- the value part of `groupby_reduce` for 1-D input whose labels have been factorised to codes
    (`keys = some code`, dropped elements carry `some (-1)`).  Returns the slots of `RangeIndex(ngroups)`.
    When `knownLabels = false`, `keys` are the raw labels (`none` = NaN) and the result is the discovered
    `(labels, values)`; the returned list then interleaves nothing: see `runUnknown`. -/
def runKnown (c : Call) (plan : Plan) (floatData : Bool) (chunks : List Nat) (keys : List Key) (vals : List Val) :
    Except String (List Val) :=
  let combineOf (rb : Bool) : List Inter → Inter :=
    if useGroupedCombine c floatData then groupedCombine c.R c.eng c.sort else simpleCombine c.R rb
  match plan with
  | .eager =>
    let x := chunkReduce c.eng c.R.numpy c.R.numpyFills keys vals (some c.ngroups) c.sort
    match finalizeResults { c.R with finalize := "none" } x (some (rangeKeys c.ngroups)) true with
    | .error e => .error e
    | .ok (gs, vs) => finalReindex c false gs vs
  | .mapreduce rb =>
    let blocks := blockStage c rb chunks keys vals
    let top := treeReduce (combineOf rb) c.splitEvery blocks
    let x := combineOf rb top
    match finalizeResults c.R x (some (rangeKeys c.ngroups)) rb with
    | .error e => .error e
    | .ok (gs, vs) => finalReindex c false gs vs
  | .cohorts cs =>
    let blocks := blockStage c false chunks keys vals
    let simple := !useGroupedCombine c floatData
    let per : List (Except String (List Key × List Val)) := cs.map fun (blks, labels) =>
      let cohortIndex : List Key := labels.map some
      let sub := blks.map fun b => blocks.getD b default
      let sub := if simple then sub.map (reindexInter c.R.interFills cohortIndex) else sub
      let top := treeReduce (combineOf simple) c.splitEvery sub
      let x := combineOf simple top
      finalizeResults c.R x (some cohortIndex) simple
    match per.mapM id with
    | .error e => .error e
    | .ok rs =>
      let gs := rs.flatMap (·.1)
      let vs := rs.flatMap (·.2)
      let (gs, vs) := if c.sort then sortPairs gs vs else (gs, vs)
      finalReindex c false gs vs
  | .blockwise rb =>
    let kb := splitBy chunks keys
    let vb := splitBy chunks vals
    let expected := if rb then some c.ngroups else none
    let per : List (Except String (List Key × List Val)) := (kb.zip vb).map fun (ks, vs) =>
      let x := chunkReduce c.eng c.R.numpy c.R.numpyFills ks vs expected c.sort
      finalizeResults { c.R with finalize := "none" } x (if rb then some (rangeKeys c.ngroups) else none) rb
    match per.mapM id with
    | .error e => .error e
    | .ok rs =>
      if rb then
        -- announced groups are `expected_groups`; the graph has one output block per input block
        match rs with
        | [r] => finalReindex c true r.1 r.2
        | _ => .error "ValueError"
      else
        -- announced groups: unique labels of each block, sorted or in order of first appearance like the
        -- per-block results (`_unique(by_input[slc])` / `pd.unique`)
        let gs := kb.flatMap fun ks =>
          ((if c.sort then uniqSorted (presentKeys ks) else uniqFirst (presentKeys ks))).map some
        let vs := rs.flatMap (·.2)
        let (gs, vs) := if c.sort then sortPairs gs vs else (gs, vs)
        finalReindex c true gs vs

/-- labels unknown until compute time: map-reduce with the grouped combine; result is `(labels, values)` -/
def runUnknown (c : Call) (chunks : List Nat) (keys : List Key) (vals : List Val) :
    Except String (List Key × List Val) :=
  let blocks := blockStage c false chunks keys vals
  let comb := groupedCombine c.R c.eng c.sort
  let top := treeReduce comb c.splitEvery blocks
  let x := comb top
  match finalizeResults c.R x none false with
  | .error e => .error e
  | .ok (gs, vs) =>
    -- `_aggregate`: the NaN placeholder label of all-missing blocks is not a group
    let keep := (gs.zip vs).filter fun p => p.1.isSome
    .ok (keep.map (·.1), keep.map (·.2))

end Flox
