/-
  C15 — metadata model of `flox.xarray.xarray_reduce` (flox/xarray.py), bug for bug, and the rule of xarray's own
  groupby as the specification.

  What is modelled (names, dimension lists; no values):
    * `grouperDims`   – `grouper_dims`: first-appearance union of the dims of the `by` arrays            (xarray.py 245-249)
    * `dimTuple`      – `dim_tuple` for dim=None / `...` / explicit, with the two refusals               (270-287)
    * `needsBroadcast`, `bdims` – `xr.broadcast(ds, *by, exclude=exclude_dims)` prepends the missing dims (294-300)
    * `shortcut`      – the plain-reduction shortcut when no reduced dim belongs to a grouper              (302-321)
    * `missing`       – `missing_dim`: Dataset variables without any reduced dim are taken out             (390-396, 506-513)
    * `ufuncDims`     – `apply_ufunc` with input core dims `[gd∖T ++ T]`, output core dims `gd∖T ++ group names`:
                         the result is `broadcast dims ++ output core dims`                               (400-445)
    * `groupName`     – `<name>_bins` for binned groupers                                                 (333)
    * `restore`       – `_restore_dim_order`: a STABLE sort of the result dims by `lookup_order`           (30-43, 490-504)
    * `coordsOut`     – which coordinates the result carries
    * `resolveFunc`   – skipna → `nan…` renaming inside `wrapper`                                         (365-370)
  The specification (`native…`) is written from the behaviour of `obj.groupby(...).<func>()` with flox disabled.
-/
namespace Flox.XDims

abbrev Dim := String

/-- a `by` array: its name, its dims, and whether it is binned (`isbin` or an IntervalIndex in `expected_groups`) -/
structure Grouper where
  name : String
  dims : List Dim
  isbin : Bool
  /-- `f"{name}_bins"`; Lean's kernel does not evaluate string concatenation, so the caller (driver: `name ++ "_bins"`)
      supplies it -/
  binName : String
deriving Repr, DecidableEq

/-- the `dim` argument -/
inductive DimArg where
  | none
  | ellipsis
  | explicit (ds : List Dim)
deriving Repr, DecidableEq

/-- a coordinate variable: name, dims -/
structure Coord where
  name : String
  dims : List Dim
deriving Repr, DecidableEq

/-- one call of `xarray_reduce(obj, *by, dim=…)` as far as names and dims are concerned -/
structure Call where
  isDataset : Bool
  objDims : List Dim                 -- `list(obj.dims)`
  vars : List (String × List Dim)    -- data variables in order (a DataArray: one entry)
  coords : List Coord                -- coordinates of the object and of external `by` DataArrays
  unindexed : List String            -- `unindexed_dims`: groupers given by the name of a dimension without index
  groupers : List Grouper
  dim : DimArg
deriving Repr

instance {ε α : Type} [DecidableEq ε] [DecidableEq α] : DecidableEq (Except ε α)
  | .ok a, .ok b => if h : a = b then isTrue (h ▸ rfl) else isFalse (fun h' => h (Except.ok.inj h'))
  | .error a, .error b => if h : a = b then isTrue (h ▸ rfl) else isFalse (fun h' => h (Except.error.inj h'))
  | .ok _, .error _ => isFalse (fun h => by cases h)
  | .error _, .ok _ => isFalse (fun h => by cases h)

inductive Err where
  | multiEllipsis        -- NotImplementedError: Multiple by are not allowed when dim is Ellipsis
  | absentDims           -- ValueError: Cannot reduce over absent dimensions
  | missingCoreDims (var : String)   -- ValueError raised inside apply_ufunc: Missing core dims …
deriving Repr, DecidableEq

/-! ### argument normalisation -/

/-- append the elements of `ds` that are not yet present -/
def addNew (acc ds : List Dim) : List Dim :=
  ds.foldl (fun a d => if d ∈ a then a else a ++ [d]) acc

def grouperDims (by_ : List Grouper) : List Dim :=
  by_.foldl (fun a g => addNew a g.dims) []

def groupName (g : Grouper) : String := if g.isbin then g.binName else g.name

def groupNames (by_ : List Grouper) : List String := by_.map groupName

def dimTuple (c : Call) : Except Err (List Dim) :=
  let gd := grouperDims c.groupers
  let t : Except Err (List Dim) :=
    match c.dim with
    | .ellipsis =>
      match c.groupers with
      | [_] => .ok c.objDims     -- (since /repo 'fix: dim=... while grouping by a dimension': every dim, as native)
      | _ => .error .multiEllipsis
    | .explicit ds => .ok ds
    | .none => .ok gd
  match t with
  | .error e => .error e
  | .ok t => if t.any (fun d => d ∉ gd ∧ d ∉ c.objDims) then .error .absentDims else .ok t

/-- `exclude_dims`: dims of the object that are neither grouper dims nor reduced -/
def excludeDims (c : Call) (t : List Dim) : List Dim :=
  c.objDims.filter (fun d => d ∉ grouperDims c.groupers ∧ d ∉ t)

def needsBroadcast (c : Call) : Bool :=
  c.vars.any (fun v => !(grouperDims c.groupers).all (· ∈ v.2))

/-- `dims_map` of `xr.broadcast`: dims of the object, then of the `by` arrays, first appearance, excluded ones skipped -/
def dimsMap (c : Call) (t : List Dim) : List Dim :=
  (addNew c.objDims (grouperDims c.groupers)).filter (· ∉ excludeDims c t)

/-- dims of a data variable of `ds_broad`: `Variable.set_dims(var_dims_map)` returns the variable TRANSPOSED to the
    order of the map = `dims_map`, followed by the excluded dims the variable has (in `exclude_dims` order) -/
def bdims (c : Call) (t : List Dim) (v : List Dim) : List Dim :=
  if needsBroadcast c then dimsMap c t ++ (excludeDims c t).filter (· ∈ v) else v

/-- the plain-reduction shortcut: no reduced dim belongs to a grouper, and nothing is binned -/
def shortcut (c : Call) (t : List Dim) : Bool :=
  t.all (· ∉ grouperDims c.groupers) && !c.groupers.any (·.isbin)

/-- `missing_dim`: a Dataset variable having none of the reduced dims -/
def missing (c : Call) (t : List Dim) (v : List Dim) : Bool :=
  c.isDataset && t.all (· ∉ v)

/-! ### `_restore_dim_order` -/

/-- `lookup_order`, order-isomorphically in `Nat`: −1e6 ↦ 0, axis `i` ↦ `i+1`, 1e6 ↦ `length+1` -/
def lookupKey (template : List Dim) (byName : String) (byDims : List Dim) (noReorder : Bool) (d : Dim) : Nat :=
  let renamed := d = byName ∧ byDims.length = 1
  let d' := if renamed then byDims.headD d else d
  if renamed ∧ noReorder then 0
  else if d' ∈ template then template.idxOf d' + 1 else template.length + 1

/-- insert `x` in front of the first element whose key is not smaller (so `x` stays in front of equal keys) -/
def insertByKey (key : Dim → Nat) (x : Dim) : List Dim → List Dim
  | [] => [x]
  | y :: ys => if key x ≤ key y then x :: y :: ys else y :: insertByKey key x ys

/-- Python's `sorted(..., key=…)` (stable) -/
def sortByKey (key : Dim → Nat) : List Dim → List Dim
  | [] => []
  | x :: xs => insertByKey key x (sortByKey key xs)

def restore (result template : List Dim) (g : Grouper) (noReorder : Bool) : List Dim :=
  sortByKey (lookupKey template g.name g.dims noReorder) result

/-! ### the pipeline -/

/-- dims of one data variable after `apply_ufunc`: broadcast dims, then the output core dims -/
def ufuncDims (c : Call) (t : List Dim) (v : List Dim) : List Dim :=
  let gd := grouperDims c.groupers
  (bdims c t v).filter (fun d => d ∉ gd ∧ d ∉ t) ++ gd.filter (· ∉ t) ++ groupNames c.groupers

/-- result dims of one data variable -/
def varDims (c : Call) (t : List Dim) (name : String) (v : List Dim) : Except Err (List Dim) :=
  if shortcut c t then .ok ((bdims c t v).filter (· ∉ t))
  else if missing c t v then .ok ((groupNames c.groupers).filter (· ∉ v) ++ v)
  else if !needsBroadcast c && t.any (· ∉ v) then .error (.missingCoreDims name)
  else
    let out := ufuncDims c t v
    match c.groupers with
    | [g] => if out.length > 1 then .ok (restore out v g c.isDataset) else .ok out
    | _ => .ok out

/-- order of the data variables of the result: the `missing_dim` variables are re-attached at the end -/
def varOrder (c : Call) (t : List Dim) : List (String × List Dim) :=
  if shortcut c t then c.vars
  else c.vars.filter (fun v => !missing c t v.2) ++ c.vars.filter (fun v => missing c t v.2)

def allDims (c : Call) : Except Err (List (String × List Dim)) := do
  let t ← dimTuple c
  (varOrder c t).mapM fun v => do
    let d ← varDims c t v.1 v.2
    pure (v.1, d)

/-- names of the coordinates of the result (order irrelevant) -/
def coordsOut (c : Call) (t : List Dim) : List String :=
  let kept := (c.coords.filter (fun k => k.dims.all (· ∉ t))).map (·.name)
  if shortcut c t then kept
  else (kept.filter (fun n => n ∉ groupNames c.groupers) ++ groupNames c.groupers).filter (· ∉ c.unindexed)

/-! ### skipna → nan-variant (inside `wrapper`) -/

/-- a reduction name, split as (`nan` prefix?, base name); Lean's kernel does not compute with string concatenation, so
    the prefix is a flag.  No base name of flox contains "nan", hence Python's `"nan" not in func` is `¬ nan`. -/
structure FName where
  nan : Bool
  base : String
deriving Repr, DecidableEq

/-- `kind` is `array.dtype.kind`; result: the name handed to `groupby_reduce`, `none` = ValueError("skipna cannot be
    truthy for … reductions") -/
def resolveFunc (f : FName) (kind : Char) (skipna : Option Bool) : Option FName :=
  let counting := f.nan = false ∧ (f.base = "all" ∨ f.base = "any" ∨ f.base = "count")
  if skipna = some true ∧ counting then none
  else if skipna = some true ∨ (skipna = none ∧ (kind = 'c' ∨ kind = 'f' ∨ kind = 'O')) then
    if f.nan = false ∧ ¬ counting then some { f with nan := true } else some f
  else some f

/-! ### specification: the rule of xarray's own groupby

  Written from `obj.groupby(by).<func>(dim=…)` with `use_flox=False`:
  * the reduced dims `t` disappear from every variable that has them;
  * DataArray, one 1-D grouper along `d`: the group dim takes the place of `d` (GroupBy._restore_dim_order);
  * DataArray, one 2-D grouper (the object is stacked): the group dim comes last;
  * Dataset, one grouper: `concat` puts the group dim first, no re-ordering for Datasets;
  * several groupers: the group dims are unstacked at the end, in the order of the groupers;
  * a Dataset variable without any reduced dim is carried along unchanged, expanded by the group dim(s) in front;
  * when no reduced dim belongs to the grouper, the groups are concatenated back along the grouper's dim: the result
    has no group dim, and only the reduced dims disappear.
-/

/-- what native xarray reduces: `dim=None` → the dims of the grouper(s); `...` → everything; explicit → as given -/
def nativeReduced (c : Call) : List Dim :=
  match c.dim with
  | .none => grouperDims c.groupers
  | .ellipsis => c.objDims
  | .explicit ds => ds

def nativeVarDims (c : Call) (v : List Dim) : List Dim :=
  let t := nativeReduced c
  let gd := grouperDims c.groupers
  if t.all (· ∉ gd) then
    -- groups do not vary along the reduced dims: concatenated back along the grouper's own dim(s)
    if gd.length = 1 then gd.filter (· ∉ v) ++ v.filter (· ∉ t)
    else v.filter (fun d => d ∉ gd ∧ d ∉ t) ++ gd          -- stacked, reduced, unstacked
  else if c.isDataset && t.all (· ∉ v) then
    match c.groupers with
    | [g] => [groupName g].filter (· ∉ v) ++ v
    | _ => v ++ (groupNames c.groupers).filter (· ∉ v)
  else
    match c.groupers with
    | [g] =>
      if c.isDataset then groupName g :: v.filter (· ∉ t)
      else
        match g.dims with
        | [d] => v.filterMap (fun x => if x = d then some (groupName g) else if x ∈ t then none else some x)
        | _ => v.filter (· ∉ t) ++ [groupName g]
    | _ => v.filter (· ∉ t) ++ groupNames c.groupers

def nativeCoords (c : Call) : List String :=
  let t := nativeReduced c
  let gd := grouperDims c.groupers
  let kept := (c.coords.filter (fun k => k.dims.all (· ∉ t))).map (·.name)
  if t.all (· ∉ gd) then kept
  else (kept.filter (fun n => n ∉ groupNames c.groupers) ++ groupNames c.groupers).filter (· ∉ c.unindexed)

end Flox.XDims
