/-
  Model of `flox.groupby_scan` for 1-D input (C10): nancumsum, ffill, bfill; eager and dask.

  Data are lists of pairs `(code, value)`: `code` is the integer label after factorisation
  (order of first appearance; a missing label is `-1`), `value` an exact extended number.

  What is modelled, function by function (file / function in /repo/flox and third-party code):
  * `aggregate_flox.ffill`                      → `ffillEngine`  (`_prepare_for_flox`: stable argsort unless already sorted;
                                                    group starts; mask; `idx = where(mask, 0, arange)`; `maximum.accumulate`;
                                                    `array[idx]`; inverse permutation)
  * `numpy_groupies.aggregate_numpy._nancumsum` → `npgNancumsum` (NaN→0; mergesort; ONE global `np.cumsum`; subtract the cumsum at
                                                    the group start, add the group's first element; inverse permutation)
  * `core.chunk_scan`                           → `chunkScan`
  * `core.grouped_reduce` (via `chunk_reduce`)  → `groupedReduce` (sorted unique codes present + `nansum` / `nanlast` per group; the
                                                    reduction kernels themselves are the subject of C01 and used through their contract)
  * `AlignedArrays.last`                        → `lasts`        (`nanlast`: skips NaN!)
  * `aggregations.scan_binary_op`               → `binopResult` (both modes) and `combineState`
  * `dask.array.reductions.prefixscan_blelloch` → `blellochTrees` (up-sweep / down-sweep over `prefix_vals`) and `scanChunked`
  * `core.groupby_scan`                         → `groupbyScan`  (non-float ffill/bfill shortcut, size-1 / one-element-per-group
                                                    shortcut (with NaN→0 for nancumsum), `reverse` as preprocess / finalize of
                                                    bfill, refusal of missing labels by nancumsum)
-/
import FloxModel.Kernels
import FloxModel.ScanSpec

namespace Flox
namespace Scan

/-! ### stable sort carrying a payload (`argsort(kind="stable")` applied to all aligned arrays) -/

/-- insert `p` behind every element whose key is `≤` its own (it came last in the original order) -/
def insertBack {α} (p : Int × α) : List (Int × α) → List (Int × α)
  | [] => [p]
  | q :: qs => if q.1 ≤ p.1 then q :: insertBack p qs else p :: q :: qs

def ssortL {α} (l : List (Int × α)) : List (Int × α) := l.foldl (fun acc p => insertBack p acc) []

/-- `(group_idx[:-1] <= group_idx[1:]).all()` -/
def isSortedKeys {α} : List (Int × α) → Bool
  | [] => true
  | [_] => true
  | p :: q :: rest => decide (p.1 ≤ q.1) && isSortedKeys (q :: rest)

/-- attach the original position to every element -/
def withIdx (l : AA) : List (Int × (Nat × Val)) := (l.zipIdx).map fun (p, i) => (p.1, (i, p.2))

def dropIdx (s : List (Int × (Nat × Val))) : AA := s.map fun p => (p.1, p.2.2)
def idxs (s : List (Int × (Nat × Val))) : List Nat := s.map fun p => p.2.1

/-- `out[..., invert_perm]`: position `i` of the output is the entry computed for the element that came from position `i` -/
def unperm (n : Nat) (pairs : List (Nat × Val)) : List Val :=
  (List.range n).map fun i => (pairs.lookup i).getD Val.nan

/-! ### `aggregate_flox.ffill` -/

/-- `flag`, `mask`, `idx = np.where(mask, 0, np.arange(n))` and `np.maximum.accumulate(idx)` fused into one pass:
    `pk` = key of the previous element (group start ⇔ `pk ≠ some k`), `j` = current position, `cur` = running maximum -/
def ffillIdx : Option Int → Nat → Nat → AA → List Nat
  | _, _, _, [] => []
  | pk, j, cur, (k, v) :: r =>
    let masked := v.isNaN && (pk == some k)
    let idx := if masked then 0 else j
    let cur' := Nat.max cur idx
    cur' :: ffillIdx (some k) (j + 1) cur' r

/-- `array[idx]` on the sorted data -/
def ffillSorted (s : AA) : List Val :=
  (ffillIdx none 0 0 s).map fun a => ((vals s).getD a Val.nan)

def ffillEngine (l : AA) : List Val :=
  let z := withIdx l
  let s := if isSortedKeys z then z else ssortL z
  unperm l.length ((idxs s).zip (ffillSorted (dropIdx s)))

/-! ### `numpy_groupies` `_nancumsum` / `_cumsum` -/

def nanToZero (l : AA) : AA := l.map fun p => (p.1, if p.2.isNaN then Val.zero else p.2)

/-- on the sorted data: `c = np.cumsum(a)` (one running total over ALL groups), `out = c - c[group_start] + a[group_start]`;
    `cs`, `as` = cumsum and element at the start of the current group -/
def cumsumSorted : Option Int → Val → Val → Val → AA → List Val
  | _, _, _, _, [] => []
  | pk, c, cs, as, (k, v) :: r =>
    let c' := Val.add c v
    let cs' := if pk == some k then cs else c'
    let as' := if pk == some k then as else v
    Val.add (Val.sub c' cs') as' :: cumsumSorted (some k) c' cs' as' r

def npgNancumsum (l : AA) : List Val :=
  let s := ssortL (withIdx (nanToZero l))
  unperm l.length ((idxs s).zip (cumsumSorted none Val.zero Val.zero Val.zero (dropIdx s)))

/-! ### blocks: `chunk_scan`, `grouped_reduce`, `scan_binary_op` -/

/-- does the function use the concat-then-rescan mode (`ffill`, `bfill`) or `np.add` on reindexed states? -/
def isFill : Func → Bool
  | .nancumsum => false
  | _ => true

/-- `chunk_scan`: the in-memory grouped scan (`agg.scan`) of one block, zipped with its labels -/
def chunkScan (f : Func) (b : AA) : AA :=
  (keys b).zip (if isFill f then ffillEngine b else npgNancumsum b)

/-- sorted unique codes (`pd.factorize(sort=True)` inside `chunk_reduce`) -/
def insertUniq (g : Int) : List Int → List Int
  | [] => [g]
  | k :: ks => if g < k then g :: k :: ks else if g = k then k :: ks else k :: insertUniq g ks

def uniq (l : List Int) : List Int := l.foldr insertUniq []

/-- `agg.reduction` -/
def reduction : Func → Kernel
  | .nancumsum => .nansum
  | _ => .nanlast

/-- `grouped_reduce`: state of one block = groups present (sorted) with `agg.reduction` of their members:
    `nansum` (NaN skipped, identity 0) for nancumsum, `nanlast` (last non-NaN member, NaN if none) for ffill / bfill. -/
def groupedReduce (f : Func) (b : AA) : AA :=
  (uniq (keys b)).map fun g => (g, kEval (reduction f) (mem g b))

/-- `AlignedArrays.last`: `nanlast` per group of `concatenate([left, result])` -/
def lasts (l : AA) : AA :=
  (uniq (keys l)).map fun g => (g, lastNonNaN (mem g l))

def lookupD (g : Int) (s : AA) (d : Val) : Val := (s.lookup g).getD d

/-- the `result` of `scan_binary_op`.
    apply_binary_op : `reindex_(left.array, from_=left.group_idx, to=RangeIndex(right.group_idx.max()+1), fill_value=identity)`
                      indexed with `right.group_idx`, then `np.add`;
    concat_then_scan: run the grouped `ffill` on `concatenate([left, right])` and keep the tail. -/
def binopResult (f : Func) (left right : AA) : AA :=
  if isFill f then (keys right).zip ((ffillEngine (left ++ right)).drop left.length)
  else right.map fun p => (p.1, Val.add (lookupD p.1 left Val.zero) p.2)

/-- new carried state: `concatenate([left, result]).last()` -/
def combineState (f : Func) (left right : AA) : AA := lasts (left ++ binopResult f left right)

/-! ### dask's Blelloch prefix scan -/

/-- how one entry of `prefix_vals` was obtained from the per-block states: a bracketing of block indices -/
inductive BTree where
  | leaf (i : Nat)
  | node (l r : BTree)
deriving Repr, Inhabited, DecidableEq

def BTree.leaves : BTree → List Nat
  | .leaf i => [i]
  | .node l r => l.leaves ++ r.leaves

def BTree.eval {σ} (op : σ → σ → σ) (leafVal : Nat → σ) : BTree → σ
  | .leaf i => leafVal i
  | .node l r => op (l.eval op leafVal) (r.eval op leafVal)

/-- `for i in range(start, n, stride2): prefix_vals[i] = binop(prefix_vals[i - stride], prefix_vals[i])` -/
def sweepLevel (start stride stride2 : Nat) (pv : Array BTree) : Array BTree :=
  (List.range pv.size).foldl (fun pv i =>
    if start ≤ i ∧ (i - start) % stride2 = 0 then pv.set! i (.node (pv[i - stride]!) (pv[i]!)) else pv) pv

def upsweep : Nat → Nat → Nat → Array BTree → Array BTree × Nat
  | 0, stride, _, pv => (pv, stride)
  | fuel + 1, stride, stride2, pv =>
    if stride2 ≤ pv.size then upsweep fuel stride2 (stride2 * 2) (sweepLevel (stride2 - 1) stride stride2 pv)
    else (pv, stride)

def downsweep : Nat → Nat → Nat → Array BTree → Array BTree
  | 0, _, _, pv => pv
  | fuel + 1, stride, stride2, pv =>
    if stride > 0 then downsweep fuel (stride / 2) stride (sweepLevel (stride2 + stride - 1) stride stride2 pv)
    else pv

/-- smallest power of two `≥ m` (`2 ** math.ceil(math.log2(m))`, `m ≥ 1`) -/
def nextPow2 (m : Nat) : Nat := Id.run do
  let mut p := 1
  for _ in [0:m] do
    if p < m then p := p * 2
  return p

/-- `prefix_vals` after both sweeps, for `nvals = numblocks - 1` per-block states: entry `i` combines blocks `0..i` -/
def blellochTrees (nvals : Nat) : List BTree :=
  let pv0 : Array BTree := (Array.range nvals).map BTree.leaf
  if nvals < 2 then pv0.toList else
    let (pv1, _) := upsweep (nvals + 1) 1 2 pv0
    let stride2 := Nat.max 2 (nextPow2 (nvals / 2))
    (downsweep (nvals + 1) (stride2 / 2) stride2 pv1).toList

def validTrees (trees : List BTree) : Bool :=
  (trees.zipIdx).all fun (t, i) => t.leaves == List.range (i + 1)

/-- cut `l` into consecutive blocks of the given sizes -/
def splitBlocks : List Nat → AA → List AA
  | [], _ => []
  | c :: cs, l => l.take c :: splitBlocks cs (l.drop c)

/-- blocks `i, i+1, …` of the output. Block `0`: `func(x_0)`; block `i ≥ 1`: `binop(prefix_vals[i-1], func(x_i))`, where
    `prefix_vals[i-1]` is the bracketing `trees[i-1]` evaluated with `binop` over the per-block states `preop(x_j)`;
    `_finalize_scan` keeps the result arrays -/
def scanChunkedFrom (f : Func) (trees : List BTree) (all : List AA) : Nat → List AA → List Val
  | _, [] => []
  | i, b :: rest =>
    (if i = 0 then vals (chunkScan f b)
     else vals (binopResult f ((trees.getD (i - 1) (.leaf 0)).eval (combineState f) (fun j => groupedReduce f (all.getD j [])))
                 (chunkScan f b)))
    ++ scanChunkedFrom f trees all (i + 1) rest

def scanChunked (f : Func) (trees : List BTree) (blocks : List AA) : List Val :=
  scanChunkedFrom f trees blocks 0 blocks

/-! ### entry point `groupby_scan` -/

inductive Result where
  | ok (vs : List Val)
  | refused          -- an exception is raised
deriving DecidableEq, Repr, Inhabited

/-- number of groups found by `factorize_` (missing labels are not groups) -/
def ngroups (l : AA) : Nat := (uniq ((keys l).filter (· ≥ 0))).length

def revAA (l : AA) : AA := l.reverse

/-- `chunks = none`: in-memory input; `some cs`: dask input with these chunk sizes along the scanned axis (`trees` = the
    bracketings dask uses for the carried prefixes; `blellochTrees (#blocks - 1)` for the real graph).
    `floatData = false`: integer / boolean data (no NaN can occur). -/
def groupbyScan (f : Func) (floatData : Bool) (chunks : Option (List Nat)) (trees : List BTree) (l : AA) : Result :=
  -- `if agg is ffill or bfill and array.dtype.kind != "f": return array`
  if isFill f && !floatData then .ok (vals l)
  -- `if by_.shape[-1] == 1 or by_.shape == grp_shape: return array.astype(agg.dtype)`; since fix 53517b3 nancumsum on
  -- floating data first substitutes NaN by 0 (`np.where(isnull(array), 0, array)`)
  else if l.length = 1 ∨ l.length = ngroups l then
    .ok (if f = .nancumsum ∧ floatData = true then vals (nanToZero l) else vals l)
  -- numpy_groupies refuses negative indices (nancumsum only; ffill treats -1 as one more label)
  else if !isFill f && (keys l).any (· < 0) then .refused
  else
    let inp := if f = .bfill then revAA l else l
    let out := match chunks with
      | none => vals (chunkScan f inp)
      | some cs => scanChunked f trees (splitBlocks (if f = .bfill then cs.reverse else cs) inp)
    .ok (if f = .bfill then out.reverse else out)

end Scan
end Flox
