/-
  Val: exact extended numbers used by the flox model.

  `fin q` is an exact rational; `nan`, `pinf`, `ninf` follow IEEE-754 semantics for
  the operations flox uses (add, mul, max/min as `np.maximum`/`np.minimum`, division).
  Rounding is NOT modelled (see DESIGN.md §3): the correspondence harness only feeds data on which
  double arithmetic is exact.
-/
namespace Flox

inductive Val where
  | nan
  | ninf
  | pinf
  | fin (q : Rat)
deriving DecidableEq, Repr, Inhabited

namespace Val

def zero : Val := fin 0
def one : Val := fin 1

def ofInt (i : Int) : Val := fin (i : Rat)
def ofNat (n : Nat) : Val := fin (n : Rat)

def isNaN : Val → Bool
  | nan => true
  | _ => false

/-- IEEE addition without rounding. -/
def add : Val → Val → Val
  | nan, _ => nan
  | _, nan => nan
  | pinf, ninf => nan
  | ninf, pinf => nan
  | pinf, _ => pinf
  | _, pinf => pinf
  | ninf, _ => ninf
  | _, ninf => ninf
  | fin a, fin b => fin (a + b)

def neg : Val → Val
  | nan => nan
  | pinf => ninf
  | ninf => pinf
  | fin a => fin (-a)

def sub (a b : Val) : Val := add a (neg b)

/-- sign of a rational as -1, 0, 1 -/
def sgn (a : Rat) : Int := if a < 0 then -1 else if a = 0 then 0 else 1

/-- IEEE multiplication without rounding. -/
def mul : Val → Val → Val
  | nan, _ => nan
  | _, nan => nan
  | pinf, pinf => pinf
  | ninf, ninf => pinf
  | pinf, ninf => ninf
  | ninf, pinf => ninf
  | pinf, fin b => if b = 0 then nan else if b < 0 then ninf else pinf
  | ninf, fin b => if b = 0 then nan else if b < 0 then pinf else ninf
  | fin a, pinf => if a = 0 then nan else if a < 0 then ninf else pinf
  | fin a, ninf => if a = 0 then nan else if a < 0 then pinf else ninf
  | fin a, fin b => fin (a * b)

/-- IEEE division without rounding (signed zeros are not modelled: `x / 0` uses `+0`). -/
def div : Val → Val → Val
  | nan, _ => nan
  | _, nan => nan
  | pinf, pinf => nan
  | pinf, ninf => nan
  | ninf, pinf => nan
  | ninf, ninf => nan
  | pinf, fin b => if b < 0 then ninf else pinf
  | ninf, fin b => if b < 0 then pinf else ninf
  | fin _, pinf => fin 0
  | fin _, ninf => fin 0
  | fin a, fin b =>
      if b = 0 then (if a = 0 then nan else if a < 0 then ninf else pinf)
      else fin (a / b)

/-- `np.maximum`: NaN-propagating. -/
def max : Val → Val → Val
  | nan, _ => nan
  | _, nan => nan
  | pinf, _ => pinf
  | _, pinf => pinf
  | ninf, b => b
  | a, ninf => a
  | fin a, fin b => if a ≤ b then fin b else fin a

/-- `np.minimum`: NaN-propagating. -/
def min : Val → Val → Val
  | nan, _ => nan
  | _, nan => nan
  | ninf, _ => ninf
  | _, ninf => ninf
  | pinf, b => b
  | a, pinf => a
  | fin a, fin b => if a ≤ b then fin a else fin b

/-- strict order on non-NaN values (used by arg-reductions); any comparison with NaN is false. -/
def lt : Val → Val → Bool
  | nan, _ => false
  | _, nan => false
  | ninf, ninf => false
  | ninf, _ => true
  | _, ninf => false
  | pinf, _ => false
  | _, pinf => true
  | fin a, fin b => decide (a < b)

def truthy : Val → Bool
  | fin q => !(q = 0)
  | _ => true

def ofBool (b : Bool) : Val := if b then fin 1 else fin 0

/-- logical and / or as used by `all` / `any` (outputs are 0/1). -/
def land (a b : Val) : Val := ofBool (a.truthy && b.truthy)
def lor (a b : Val) : Val := ofBool (a.truthy || b.truthy)

/-! ### text protocol -/

def ratToString (q : Rat) : String :=
  if q.den = 1 then toString q.num else toString q.num ++ "/" ++ toString q.den

def toStr : Val → String
  | nan => "nan"
  | ninf => "-inf"
  | pinf => "inf"
  | fin q => ratToString q

instance : ToString Val := ⟨toStr⟩

def parseRat? (s : String) : Option Rat :=
  match s.splitOn "/" with
  | [n] => n.toInt?.map (fun i => (i : Rat))
  | [n, d] =>
    match n.toInt?, d.toNat? with
    | some i, some k => if k = 0 then none else some (mkRat i k)
    | _, _ => none
  | _ => none

def parse? (s : String) : Option Val :=
  if s = "nan" then some nan
  else if s = "inf" then some pinf
  else if s = "-inf" then some ninf
  else (parseRat? s).map fin

end Val
end Flox
