/-
  Specification of grouped scans (C10), written from NumPy's semantics only (nothing of flox's internals):

  * `seqScan f ms`     – the ordinary NumPy scan of one list: `np.nancumsum(ms)` / forward fill of `ms`
  * `groupedScan f l`  – position `i` holds the last entry of the sequential scan of the members of label(i) at positions `≤ i`
  * `IsGroupedScan`    – the property as worded: same length, and the positions of every group hold the sequential scan of that
                         group's members (in positional order)
  * `bfillSpec`        – backward fill = mirror image of forward fill

  Data: a list of `(code, value)` pairs; `code` is the integer label after factorisation (a missing label is `-1`; the
  specification treats every distinct code, also `-1`, as a bucket of its own – for the buckets of real labels this is the
  property, for `-1` it is the convention observed for ffill / bfill; nancumsum must refuse `-1`).
-/
import FloxModel.Kernels

namespace Flox
namespace Scan

inductive Func where
  | nancumsum | ffill | bfill
deriving DecidableEq, Repr, Inhabited

/-- aligned arrays: labels and values zipped -/
abbrev AA := List (Int × Val)

def keys {α} (l : List (Int × α)) : List Int := l.map (·.1)
def vals (l : AA) : List Val := l.map (·.2)

/-- members of group `g` in positional order -/
def mem (g : Int) (l : AA) : List Val := (l.filter (fun p => p.1 == g)).map (·.2)

/-! ### the sequential (ungrouped) NumPy scans as a left-to-right state machine -/

/-- state before the first element: `0` for a cumulative sum, NaN ("nothing valid seen yet") for a forward fill -/
def init : Func → Val
  | .nancumsum => Val.zero
  | _ => Val.nan

/-- one step: previous output, next element ↦ next output (`np.nancumsum` treats NaN as 0; a fill keeps the last valid value) -/
def step : Func → Val → Val → Val
  | .nancumsum, acc, v => Val.add acc (if v.isNaN then Val.zero else v)
  | _, carry, v => if v.isNaN then carry else v

def scanFrom (f : Func) : Val → List Val → List Val
  | _, [] => []
  | s, v :: r => step f s v :: scanFrom f (step f s v) r

/-- `np.nancumsum(ms)` / forward fill of `ms` -/
def seqScan (f : Func) (ms : List Val) : List Val := scanFrom f (init f) ms

/-- last entry of the sequential scan (`init` for no members) -/
def scanLast (f : Func) (ms : List Val) : Val := ms.foldl (step f) (init f)

/-- walk left to right; `pre` = what has been seen so far -/
def groupedScanFrom (f : Func) (pre : AA) : AA → List Val
  | [] => []
  | p :: rest => scanLast f (mem p.1 pre ++ [p.2]) :: groupedScanFrom f (pre ++ [p]) rest

/-- the grouped scan: every position holds the scan, up to and including itself, of the members of its own group -/
def groupedScan (f : Func) (l : AA) : List Val := groupedScanFrom f [] l

/-- the property as worded -/
def IsGroupedScan (f : Func) (l : AA) (out : List Val) : Prop :=
  out.length = l.length ∧ ∀ g, mem g ((keys l).zip out) = seqScan f (mem g l)

/-- backward fill is the mirror image of forward fill -/
def bfillSpec (l : AA) : List Val := (groupedScan .ffill l.reverse).reverse

/-- what `groupby_scan` must return -/
def spec (f : Func) (l : AA) : List Val :=
  match f with
  | .bfill => bfillSpec l
  | f => groupedScan f l

end Scan
end Flox
