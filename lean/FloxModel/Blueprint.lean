/-
  The chunk / combine / fill algebra of one intermediate column, in per-group form.

  `blockVal k f ms` is what the block stage stores for a group whose members *inside that block* are `ms`
  (numpy_groupies / flox-engine convention: no member ↦ the intermediate fill `f`; members that are all NaN
  under a NaN-skipping kernel ↦ the kernel's identity for nansum/nanprod/nanlen/nansum_of_squares and `f` otherwise).
  `combineVal c xs` is what `_simple_combine` computes from the stacked per-block values `xs`.
-/
import FloxModel.Kernels

namespace Flox

/-- value of a NaN-skipping kernel on a group that has members but no valid one -/
def allNaNVal (k : Kernel) (f : Val) : Val :=
  match k with
  | .nansum | .nansumsq | .nanlen => Val.zero
  | .nanprod => Val.one
  | _ => f

def blockVal (k : Kernel) (f : Val) (ms : List Val) : Val :=
  if ms.isEmpty then f
  else if k.skipsNaN && (dropNaN ms).isEmpty then allNaNVal k f
  else kEval k ms

/-- `_simple_combine`: reduce the stacked per-block values with the NumPy function named by the combine kernel -/
def combineVal (c : Kernel) (xs : List Val) : Val := kEval c xs

/-- the (chunk kernel, combine kernel, intermediate fill) triples of the built-in blueprints for floating data -/
def floatColumns : List (Kernel × Kernel × Val) :=
  [ (.sum, .sum, Val.zero), (.nansum, .sum, Val.zero), (.prod, .prod, Val.one), (.nanprod, .prod, Val.one),
    (.max, .max, Val.ninf), (.nanmax, .nanmax, Val.ninf), (.min, .min, Val.pinf), (.nanmin, .nanmin, Val.pinf),
    (.nanlen, .sum, Val.zero), (.sumsq, .sum, Val.zero), (.nansumsq, .sum, Val.zero),
    (.all, .all, Val.one), (.any, .any, Val.zero),
    (.nanfirst, .nanfirst, Val.nan), (.nanlast, .nanlast, Val.nan) ]

end Flox
