/-
  Engine contracts: what `generic_aggregate(engine=…)` delivers for one kernel call.

  * `flox`    – flox's own code (`EngineFlox`), falling back to numpy_groupies for kernels it lacks.
  * `npg`     – numpy_groupies (numpy and numba back-ends) behind flox's wrappers in `aggregate_npg.py`
                (`nansum`/`nanprod` by substitution, `_len` with its fill patch). Third-party kernels are
                written here from their observed contract (DESIGN.md Appendix A) – validated on every run
                by the `kernel` correspondence ops, not proved.
  * `numbagg` – numbagg.grouped behind `_numbagg_wrapper` + `_postprocess_numbagg`.
-/
import FloxModel.EngineFlox

namespace Flox

inductive Eng where
  | npg | flox | numbagg
deriving DecidableEq, Repr, Inhabited

/-- numpy_groupies contract: nan-kernels drop NaN *before* grouping (so an all-NaN group looks absent). -/
def npgAggregate (k : Kernel) (codes : List Int) (vals : List Val) (size : Nat) (fill : Val) : List Val :=
  (List.range size).map fun (g : Nat) =>
    let ms := members (Int.ofNat g) codes vals
    let ms' := if k.skipsNaN then dropNaN ms else ms
    if ms'.isEmpty then fill else kEval k ms'

/-- `aggregate_npg.py` wrappers on top of the numpy_groupies contract. -/
def npgGrouped (k : Kernel) (codes : List Int) (vals : List Val) (size : Nat) (fill : Val) : List Val :=
  match k with
  | .nansum => npgAggregate .sum codes (vals.map fun v => if v.isNaN then Val.zero else v) size fill
  | .nanprod => npgAggregate .prod codes (vals.map fun v => if v.isNaN then Val.one else v) size fill
  | .nanlen =>
      -- `_len`: aggregate with fill 0, then `result[result == 0] = fill_value`
      (npgAggregate .nanlen codes vals size Val.zero).map fun r => if r = Val.zero then fill else r
  | .len =>
      (npgAggregate .len codes vals size Val.zero).map fun r => if r = Val.zero then fill else r
  | _ => npgAggregate k codes vals size fill

/-- kernels flox routes to numbagg.grouped (`aggregate_numbagg.py`); others fall back to numpy_groupies -/
def numbaggHas : Kernel → Bool
  | .nansum | .nanprod | .nansumsq | .nanlen | .nanmean | .nanvar _ | .nanmin | .nanmax
  | .nanfirst | .nanlast | .any | .all => true
  | _ => false

/-- `DEFAULT_FILL_VALUE[func]` when `func` is a key of that table (only then `_postprocess_numbagg` acts) -/
def numbaggDefault : Kernel → Option Val
  | .nansum => some Val.zero
  | .nanprod => some Val.one
  | .nansumsq => some Val.zero
  | .nanmean | .nanvar _ | .nanmin | .nanmax | .nanfirst | .nanlast => some Val.nan
  | _ => none

/-- what numbagg.grouped itself returns for an empty / all-NaN slot -/
def numbaggEmpty : Kernel → Val
  | .nansum | .nansumsq | .nanlen | .any => Val.zero
  | .nanprod | .all => Val.one
  | _ => Val.nan

/-- `_numbagg_wrapper` followed by `_postprocess_numbagg` (as called from `chunk_reduce`):
    slots of groups that were not seen at all get `fill` when `fill` differs from the default. -/
def numbaggGrouped (k : Kernel) (codes : List Int) (vals : List Val) (size : Nat) (fill : Val) : List Val :=
  if !numbaggHas k then npgGrouped k codes vals size fill
  else
    (List.range size).map fun (g : Nat) =>
      let ms := members (Int.ofNat g) codes vals
      let ms' := if k.skipsNaN then dropNaN ms else ms
      if ms.isEmpty then
        (match numbaggDefault k with
         | some dflt => if fill = dflt then numbaggEmpty k else fill
         | none => numbaggEmpty k)
      else if ms'.isEmpty then numbaggEmpty k
      else kEval k ms'

def floxGrouped (k : Kernel) (codes : List Int) (vals : List Val) (size : Nat) (fill : Val) : List Val :=
  match EngineFlox.run? k codes vals size fill with
  | some r => r
  | none => npgGrouped k codes vals size fill

def engGrouped : Eng → Kernel → List Int → List Val → Nat → Val → List Val
  | .npg => npgGrouped
  | .flox => floxGrouped
  | .numbagg => numbaggGrouped

end Flox
