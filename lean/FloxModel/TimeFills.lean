/-
  Fills of the time dtypes (datetime64 / timedelta64): the row type of the generated table
  `FloxModel/Generated/TimeFills.lean` (translator: `gen_timefills`).  NaT is the missing value of these dtypes; an
  intermediate fill that is meant to be "missing" (`dtypes.NA` in the blueprint) must resolve to NaT, otherwise a group
  that is absent from a block contributes a genuine time value to the combine (the defect repaired by /repo 89983d8:
  `np.timedelta64` is a subclass of `np.integer`, so `_get_fill_value` took the integer branch).
-/
namespace Flox

structure TimeFillRow where
  func : String
  dkind : String              -- "m8" (timedelta64) | "M8" (datetime64)
  ok : Bool                   -- `_initialize_aggregation` accepted the dtype
  blueprint : List String     -- intermediate fills ++ [final fill] of the registry entry: "NA" | "INF" | "NINF" | literal
  resolved : List String      -- the same positions after `_initialize_aggregation`: "NaT" | "dt:<int64>" | literal
deriving Repr, DecidableEq

/-- every position whose blueprint fill is the missing-value sentinel resolves to NaT -/
def TimeFillRow.naIsNaT (r : TimeFillRow) : Bool :=
  !r.ok || (r.blueprint.length == r.resolved.length && (r.blueprint.zip r.resolved).all fun p => p.1 != "NA" || p.2 == "NaT")

/-- an infinity sentinel never resolves to the missing value (it must stay comparable: it is the identity of min / max) -/
def TimeFillRow.infIsValue (r : TimeFillRow) : Bool :=
  !r.ok || (r.blueprint.zip r.resolved).all fun p => !(p.1 == "INF" || p.1 == "NINF") || p.2 != "NaT"

end Flox
