/-
  Graph: a generic model of a task graph and of the schedulers that may execute it (core Lean only).

  What is modelled (dask's execution contract, which every graph built by flox is handed to):

  * a task   = the keys it reads (`deps`) and a FUNCTION of the values stored under those keys (`fn`);
               flox's graph callables are module-level functions / `functools.partial` of them
               (`flox.core.dask_groupby_agg`, `flox.dask_array_ops.partial_reduce`, `flox.core.dask_groupby_scan`)
  * a graph  = an association list key ↦ task (`dict(collection.__dask_graph__())`)
  * a memo   = the scheduler's table of finished results (`K → Option V`)
  * `step`   = run one task: look the task up, fetch every dependency from the memo (failing when one is missing:
               the schedule does not respect dependencies), store the result.  A key that is already present may be
               executed AGAIN (speculative / repeated execution) – the new result overwrites the old one.
  * `evalOrder` = a whole schedule given as the list of keys in execution order (with repetitions allowed)
  * `runOps`    = schedules that also LOSE results (`Op.lose k`: a worker holding `k` died; dask recomputes it, and
                  whatever it needs, later)
  * `RoundTrip` = shipping a task to another process (`cloudpickle.loads(cloudpickle.dumps(task))`)

  and, for contrast, the same scheduler over tasks that are NOT functions of their inputs (`ITask`: besides returning a
  value the task overwrites memo entries – an in-place write into a buffer that other tasks read, e.g. writing the
  missing-label sentinel into the shared `codes` array without the defensive copy in `flox.core._factorize_single`).

  The specification of property C13 (`Solution`) is at the end: it speaks about keys, tasks and values only.
-/

namespace Flox.Graph

variable {K V : Type} [DecidableEq K]

/-- one task: the keys it reads and a function of the values found there (in the order of `deps`) -/
structure Task (K V : Type) where
  deps : List K
  fn : List V → V

/-- `dict(collection.__dask_graph__())`; the first entry of a key wins (`List.lookup`) -/
abbrev Graph (K V : Type) := List (K × Task K V)

/-- the scheduler's table of finished results -/
abbrev Memo (K V : Type) := K → Option V

def Memo.empty : Memo K V := fun _ => none

def Memo.set (m : Memo K V) (k : K) (v : V) : Memo K V := fun k' => if k' = k then some v else m k'

/-- forget a result (lost worker / released key) -/
def Memo.erase (m : Memo K V) (k : K) : Memo K V := fun k' => if k' = k then none else m k'

def Graph.keys (g : Graph K V) : List K := g.map Prod.fst

/-- fetch the values of all dependencies; `none` when one of them has not been computed -/
def fetch (m : Memo K V) : List K → Option (List V)
  | [] => some []
  | d :: ds =>
    match m d, fetch m ds with
    | some v, some vs => some (v :: vs)
    | _, _ => none

/-- execute the task stored under `k` once; `none` = unknown key or a dependency is missing -/
def step (g : Graph K V) (m : Memo K V) (k : K) : Option (Memo K V) :=
  match g.lookup k with
  | none => none
  | some t =>
    match fetch m t.deps with
    | none => none
    | some vs => some (m.set k (t.fn vs))

/-- execute a schedule (keys in execution order, repetitions allowed) -/
def evalOrder (g : Graph K V) : List K → Memo K V → Option (Memo K V)
  | [], m => some m
  | k :: ks, m =>
    match step g m k with
    | none => none
    | some m' => evalOrder g ks m'

/-- schedules with lost results -/
inductive Op (K : Type) where
  | exec (k : K)
  | lose (k : K)
  deriving DecidableEq, Repr

def runOps (g : Graph K V) : List (Op K) → Memo K V → Option (Memo K V)
  | [], m => some m
  | .exec k :: os, m =>
    match step g m k with
    | none => none
    | some m' => runOps g os m'
  | .lose k :: os, m => runOps g os (m.erase k)

/-- the table restricted to a list of keys, for printing / comparing -/
def table (m : Memo K V) (ks : List K) : List (Option V) := ks.map m

/-! ## Impure tasks (contrast model) -/

/-- a task that, besides returning a value, overwrites the results stored under other keys (in-place write into an
    input buffer shared with other tasks) -/
structure ITask (K V : Type) where
  deps : List K
  fn : List V → V
  writes : List V → List (K × V)

abbrev IGraph (K V : Type) := List (K × ITask K V)

def applyWrites (m : Memo K V) : List (K × V) → Memo K V
  | [] => m
  | (k, v) :: ws => applyWrites (m.set k v) ws

def istep (g : IGraph K V) (m : Memo K V) (k : K) : Option (Memo K V) :=
  match g.lookup k with
  | none => none
  | some t =>
    match fetch m t.deps with
    | none => none
    | some vs => some (applyWrites (m.set k (t.fn vs)) (t.writes vs))

def ievalOrder (g : IGraph K V) : List K → Memo K V → Option (Memo K V)
  | [], m => some m
  | k :: ks, m =>
    match istep g m k with
    | none => none
    | some m' => ievalOrder g ks m'

/-- a pure task seen as an impure one that writes nothing -/
def Task.toI (t : Task K V) : ITask K V := { deps := t.deps, fn := t.fn, writes := fun _ => [] }

def Graph.toI (g : Graph K V) : IGraph K V := g.map fun (k, t) => (k, t.toI)

/-! ## Specification of C13 (keys, tasks, values only) -/

/-- `den` is THE meaning of the graph: it has a value exactly for the keys of the graph, and the value of every key is
    its task's function applied to the values of the keys it reads.  Nothing here mentions an order of execution,
    how often a task ran, or where. -/
def Solution (g : Graph K V) (den : Memo K V) : Prop :=
  ∀ k, match g.lookup k with
    | none => den k = none
    | some t => ∃ vs, fetch den t.deps = some vs ∧ den k = some (t.fn vs)

/-- Boolean form of `Solution` on a finite list of keys (used by the driver on the candidate table of the oracle) -/
def isSolutionOn [DecidableEq V] (g : Graph K V) (den : Memo K V) (ks : List K) : Bool :=
  ks.all fun k =>
    match g.lookup k with
    | none => den k == none
    | some t =>
      match fetch den t.deps with
      | none => false
      | some vs => den k == some (t.fn vs)

/-- the schedule is complete: it executes every key of the graph (at least once) -/
def Complete (g : Graph K V) (order : List K) : Prop := ∀ k ∈ g.keys, k ∈ order

/-- shipping tasks elsewhere (`cloudpickle.loads(cloudpickle.dumps(task))`): `rt k t` is what arrives when the task `t`
    stored under `k` is shipped (the identity for tasks that stay where they are) -/
def ship (rt : K → Task K V → Task K V) (g : Graph K V) : Graph K V := g.map fun (k, t) => (k, rt k t)

/-- the round trip is faithful: the received task reads the same keys and returns the same value on every argument list -/
def Faithful (rt : K → Task K V → Task K V) : Prop :=
  ∀ k t, (rt k t).deps = t.deps ∧ ∀ xs, (rt k t).fn xs = t.fn xs

end Flox.Graph
