/-
  C19 — the validation / planning chain of `flox.groupby_reduce` (one grouper), modelled bug for bug on an
  abstract configuration cell:

    * `validateReindex`  = `flox.core._validate_reindex`
    * `chooseMethod`     = `flox.core._choose_method`
    * `chooseEngine`     = `flox.core._choose_engine`
    * `validate`         = the guards of `groupby_reduce` (core.py 2606-2893) and of `dask_groupby_agg`
                           (core.py 1809-1818, and the two refusals of its blockwise branch) in the order the code executes them; an `assert` that can fail
                           would be modelled as `.err .assertion` (none is left in the chain)
    * `blockwiseRefused` = the check `len(pd.unique(groups_)) != groups_.size` of method="blockwise" (core.py 2945-2953)

  The three decision functions are proved equal to tables regenerated from the live code
  (`FloxModel/Generated/Decisions.lean`, see `FloxProofs/Decisions.lean`).  Core Lean only.
-/
namespace Flox.Decisions

/-- exception classes the model distinguishes -/
inductive ErrKind where
  | valueError | notImplemented | importError | assertion | other
deriving DecidableEq, Repr, Inhabited

inductive Res (α : Type) where
  | err (e : ErrKind)
  | ok (a : α)
deriving DecidableEq, Repr, Inhabited

def Res.bind {α β} (r : Res α) (f : α → Res β) : Res β :=
  match r with
  | .err e => .err e
  | .ok a => f a

def Res.isOk {α} : Res α → Bool
  | .ok _ => true
  | .err _ => false

inductive Method where
  | mapReduce | blockwise | cohorts
deriving DecidableEq, Repr, Inhabited

inductive Engine where
  | numpy | flox | numbagg | numba
deriving DecidableEq, Repr, Inhabited

/-- reductions grouped by the predicates the code branches on -/
inductive FuncKind where
  | arg | nanarg | first | nanfirst | median | nanmedian | quantile | nanquantile | mode | nanmode | anyall
  | nanskip | plain
deriving DecidableEq, Repr, Inhabited

/-- the classes `_validate_reindex` / `_choose_method` / the entry guards distinguish -/
inductive FuncClass where
  | arg             -- argmax, argmin, nanargmax, nanargmin
  | first           -- first, last
  | nanfirst        -- nanfirst, nanlast
  | blockwiseOnly   -- median, quantile, mode, ... : `agg.chunk == (None,)`
  | plain
deriving DecidableEq, Repr, Inhabited

namespace FuncClass
/-- `_is_arg_reduction` -/
def isArg : FuncClass → Bool
  | .arg => true
  | _ => false
/-- `_is_first_last_reduction` -/
def isFirstLast : FuncClass → Bool
  | .first | .nanfirst => true
  | _ => false
/-- `func in ["first", "last"]` -/
def strictFirstLast : FuncClass → Bool
  | .first => true
  | _ => false
/-- `agg.chunk == (None,)`: only implemented for method="blockwise" -/
def chunkNone : FuncClass → Bool
  | .blockwiseOnly | .first => true      -- `first` / `last` have no chunk function either
  | _ => false
end FuncClass

namespace FuncKind
def cls : FuncKind → FuncClass
  | .arg | .nanarg => .arg
  | .first => .first
  | .nanfirst => .nanfirst
  | .median | .nanmedian | .quantile | .nanquantile | .mode | .nanmode => .blockwiseOnly
  | _ => .plain
def isArg (k : FuncKind) : Bool := k.cls.isArg
def isFirstLast (k : FuncKind) : Bool := k.cls.isFirstLast
def strictFirstLast (k : FuncKind) : Bool := k.cls.strictFirstLast
def chunkNone (k : FuncKind) : Bool := k.cls.chunkNone
/-- `func in ["quantile", "nanquantile"]` -/
def needsQ : FuncKind → Bool
  | .quantile | .nanquantile => true
  | _ => false
/-- `agg.name in ["quantile", "nanquantile", "median", "nanmedian"]` -/
def quantileLike : FuncKind → Bool
  | .median | .nanmedian | .quantile | .nanquantile => true
  | _ => false
/-- `(agg.chunk[0] is None and "nan" in agg.name) or any("nan" in f for f in agg.chunk)` -/
def nanSkipping : FuncKind → Bool
  | .nanarg | .nanfirst | .nanmedian | .nanquantile | .nanmode | .nanskip => true
  | _ => false
def isAnyAll : FuncKind → Bool
  | .anyall => true
  | _ => false
end FuncKind

/-! ### `_validate_reindex` -/

/-- the resolution part of `_validate_reindex` (no guard applies when it is handed a `ReindexStrategy`, as in the
    second call from `groupby_reduce`) -/
def resolveReindex (reindex : Option Bool) (k : FuncClass) (method : Option Method)
    (expected byDask arrDask isFloat : Bool) : Option Bool :=
  let firstOrLast := k.strictFirstLast || (k.isFirstLast && !isFloat)
  let allEager := !arrDask && !byDask
  match reindex with
  | some b => some b
  | none =>
    match method with
    | none => none
    | some m =>
      if allEager then some true
      else if firstOrLast then some false
      else if m = .blockwise then some byDask
      else if k.isArg then some false
      else if m = .cohorts then some false
      else if !expected && byDask then some false
      else some true

/-- `_validate_reindex(reindex : bool | None, ...)` -/
def validateReindex (reindex : Option Bool) (k : FuncClass) (method : Option Method)
    (expected byDask arrDask isFloat : Bool) : Res (Option Bool) :=
  let firstOrLast := k.strictFirstLast || (k.isFirstLast && !isFloat)
  let allEager := !arrDask && !byDask
  if reindex = some true && !allEager && k.isArg then .err .notImplemented
  else if reindex = some true && !allEager && (method = some .cohorts || (method = some .blockwise && !byDask)) then
    .err .valueError
  else if reindex = some true && !allEager && firstOrLast then .err .valueError
  else .ok (resolveReindex reindex k method expected byDask arrDask isFloat)

/-! ### `_choose_method` -/

def chooseMethod (method : Option Method) (preferred : Method) (chunkNone naxEqNdim isArg : Bool) : Res Method :=
  match method with
  | some m => .ok m
  | none =>
    if chunkNone then
      if preferred ≠ .blockwise then .err .valueError else .ok .blockwise
    else if !naxEqNdim then .ok .mapReduce
    else if isArg && preferred = .blockwise then .ok .cohorts
    else .ok preferred

/-! ### the entry point -/

/-- how the reduced axes relate to the dimensions of the labels (`nax = len(axis)`, `ndim = by.ndim`) -/
inductive AxisRel where
  | oneOfOne      -- nax = ndim = 1
  | allMany       -- nax = ndim > 1
  | oneOfMany     -- nax = 1 < ndim
  | someOfMany    -- 1 < nax < ndim
  | tooMany       -- nax > ndim
  | zero          -- nax = 0
deriving DecidableEq, Repr, Inhabited

def axisRel (nax ndim : Nat) : AxisRel :=
  if nax = 0 then .zero
  else if nax > ndim then .tooMany
  else if nax = ndim then (if ndim = 1 then .oneOfOne else .allMany)
  else if nax = 1 then .oneOfMany
  else .someOfMany

namespace AxisRel
def naxIsOne : AxisRel → Bool
  | .oneOfOne | .oneOfMany => true
  | .tooMany => false       -- conservative: nax > ndim ≥ 1 means nax ≥ 2
  | _ => false
def naxEqNdim : AxisRel → Bool
  | .oneOfOne | .allMany => true
  | _ => false
def naxLeNdim : AxisRel → Bool
  | .tooMany => false
  | _ => true
def ndimGtOne : AxisRel → Bool
  | .allMany | .oneOfMany | .someOfMany => true
  | _ => false
end AxisRel

/-- the part of a configuration cell the plan depends on -/
structure CoreCell where
  kind : FuncClass
  method : Option Method
  reindex : Option Bool
  byDask : Bool
  arrDask : Bool
  ax : AxisRel
  expected : Bool          -- expected_groups given
  isFloat : Bool           -- value dtype is floating
  preferred : Method       -- what `find_group_cohorts` prefers (only consulted where the code calls it)
  cohortsEmpty : Bool      -- `find_group_cohorts` returned no cohorts
  singleBlock : Bool       -- one block along every reduced axis
  aligned : Bool           -- `by` broadcastable against the trailing dimensions of `array`
deriving DecidableEq, Repr, Inhabited

/-- `groupby_reduce` from `method == "cohorts" and any_by_dask` down to the call of `dask_groupby_agg`
    (including the two guards at the top of the latter).  Result: resolved method (none = in-memory path) and
    `reindex.blockwise`. -/
def core (c : CoreCell) : Res (Option Method × Option Bool) :=
  let k := c.kind
  if c.method = some .cohorts && c.byDask then .err .valueError else
  (validateReindex c.reindex k c.method c.expected c.byDask c.arrDask c.isFloat).bind fun r1 =>
  if !c.aligned then .err .valueError else
  if c.byDask && r1 = some true && !c.expected then .err .valueError else
  -- labels are factorized early unless they are a dask array without expected_groups
  let expectedKnown := !c.byDask || c.expected
  let hasDask := c.arrDask || c.byDask
  -- arg-reductions on chunked input: a single axis only (argreduce_preprocess would assert otherwise)
  if k.isArg && hasDask && !c.ax.naxIsOne then .err .notImplemented else
  if k.isFirstLast && hasDask && !c.ax.naxIsOne then .err .valueError else
  if k.isFirstLast && !hasDask && !(c.ax.naxIsOne || c.ax.naxEqNdim) then .err .valueError else
  if c.ax.naxIsOne && c.ax.ndimGtOne && !expectedKnown then .err .notImplemented else
  -- more reduced axes than label dimensions: refused (formerly `assert nax <= by_.ndim`)
  if !c.ax.naxLeNdim then .err .valueError else
  if !hasDask then .ok (none, some (r1.getD true)) else
  let callsCohorts := (!c.byDask && c.method = none) || c.method = some .cohorts
  let preferred := if callsCohorts then c.preferred else .mapReduce
  let cohortsEmpty := if callsCohorts then c.cohortsEmpty else true
  (chooseMethod c.method preferred k.chunkNone c.ax.naxEqNdim k.isArg).bind fun m0 =>
  -- reindex=True was requested: only compatible with map-reduce ...
  let fallback := c.method = none && r1 = some true && (m0 = .blockwise || m0 = .cohorts) && !k.chunkNone
  let m1 := if fallback then .mapReduce else m0
  -- ... unless there is no chunk function (only blockwise is possible): every block then reports its own groups
  let r1 := if !fallback && c.method = none && r1 = some true && m0 = .blockwise && !c.byDask then some false else r1
  -- none of the requested labels occurs in any block: nothing to split into cohorts / to run blockwise
  -- (reductions without a chunk function can only run blockwise: they are left alone)
  let m := if cohortsEmpty && !k.chunkNone && (m1 = .cohorts || (c.method = none && m1 = .blockwise)) then .mapReduce else m1
  if k.chunkNone && m ≠ .blockwise then .err .notImplemented else
  if k.isArg && m = .blockwise && !c.singleBlock then .err .notImplemented else
  if !c.ax.naxEqNdim && (m = .blockwise || m = .cohorts) then .err .notImplemented else
  -- second call of `_validate_reindex`: it receives a `ReindexStrategy`, so none of its guards applies
  let r2 := resolveReindex r1 k (some m) expectedKnown c.byDask c.arrDask c.isFloat
  -- dask_groupby_agg
  if !expectedKnown && r2 = some true then .err .valueError else
  if m = .cohorts && r2 = some true then .err .valueError else
  -- blockwise branch: reindexing every block to expected_groups needs a single block along the reduced axes;
  -- finding every block's own groups needs the labels in memory
  if m = .blockwise && r2 = some true && !c.singleBlock then .err .valueError else
  if m = .blockwise && r2 ≠ some true && c.byDask then .err .valueError else
  .ok (some m, r2)

end Flox.Decisions
