/-
  Classification of resolved blueprints (`Resolved`) that use the simple combine.

  `Shape` names the three families of built-in reductions whose intermediates are combined column by column
  with `_simple_combine`:

  * `simple k c f` – one intermediate column: chunk kernel `k` (= the NumPy kernel), combine kernel `c`,
    intermediate fill `f`, no finalizer;  `(k, c, f)` is one of the built-in `floatColumns`.
  * `mean nan`     – `sum | nansum` and `nanlen`, combined with `sum`, finalizer `sum / count`.
  * `var nan ddof` – `sum_of_squares`, `sum`, `nanlen` (or the NaN-skipping variants), combined with `sum`,
    one-pass variance finalizer ("var" and "std": the model returns the variance for both, see `finalizeVals`).

  When `R.minCount > 0`, `_initialize_aggregation` appends the count column
  (`numpy ++ [nanlen]`, `chunk ++ [nanlen]`, `combine ++ [sum]`, fills `++ [0]`); `Shape.fits` expects exactly that.

  Executable, decidable, core Lean only.  Nothing else in `FloxModel` depends on this file.
-/
import FloxModel.Pipeline
import FloxModel.Blueprint

namespace Flox

inductive Shape where
  | simple (k c : Kernel) (f : Val)
  | mean (nan : Bool)
  | var (nan : Bool) (ddof : Nat)
deriving DecidableEq, Repr, Inhabited

namespace Shape

/-- the NumPy kernel the blueprint implements (what the eager path calls, and the specification kernel) -/
def kernel : Shape → Kernel
  | simple k _ _ => k
  | mean false => .mean
  | mean true => .nanmean
  | var false d => .var d
  | var true d => .nanvar d

/-- chunk kernels, without the count column -/
def chunk : Shape → List Kernel
  | simple k _ _ => [k]
  | mean false => [.sum, .nanlen]
  | mean true => [.nansum, .nanlen]
  | var false _ => [.sumsq, .sum, .nanlen]
  | var true _ => [.nansumsq, .nansum, .nanlen]

/-- combine kernels, without the count column -/
def combine : Shape → List Kernel
  | simple _ c _ => [c]
  | mean _ => [.sum, .sum]
  | var _ _ => [.sum, .sum, .sum]

/-- intermediate fills, without the count column -/
def interFills : Shape → List Val
  | simple _ _ f => [f]
  | mean _ => [Val.zero, Val.zero]
  | var _ _ => [Val.zero, Val.zero, Val.zero]

def finalizeOK : Shape → String → Bool
  | simple _ _ _, s => s == "none"
  | mean _, s => s == "mean"
  | var _ _, s => s == "var" || s == "std"

def ddofOK : Shape → Nat → Bool
  | var _ d, d' => d == d'
  | _, _ => true

/-- a `simple` shape must be one of the built-in columns -/
def wf : Shape → Bool
  | simple k c f => decide ((k, c, f) ∈ floatColumns)
  | _ => true

/-- NaN-skipping kernels whose value on an all-NaN group is the fill value of the call (not an identity) -/
def needsNaNFill : Shape → Bool
  | simple .nanmax _ _ | simple .nanmin _ _ | simple .nanfirst _ _ | simple .nanlast _ _ => true
  | mean true => true
  | var true _ => true
  | _ => false

/-- `nanmax` / `nanmin`: the intermediate fill (∓inf) differs from the NumPy fill -/
def isNanMinMax : Shape → Bool
  | simple .nanmax _ _ | simple .nanmin _ _ => true
  | _ => false

end Shape

/-- fill of the (first) NumPy kernel of the eager path -/
def Resolved.npFill (R : Resolved) : Val := R.numpyFills.headD Val.nan

/-- does `R` have exactly the fields of shape `s` (plus the count column iff `R.minCount > 0`)? -/
def Shape.fits (s : Shape) (R : Resolved) : Bool :=
  let cnt : Bool := decide (R.minCount > 0)
  !R.isArg && s.wf && s.finalizeOK R.finalize && s.ddofOK R.ddof
    && decide (R.numpy = s.kernel :: (if cnt then [Kernel.nanlen] else []))
    && decide (R.chunk = s.chunk ++ (if cnt then [Kernel.nanlen] else []))
    && decide (R.combine = s.combine ++ (if cnt then [Kernel.sum] else []))
    && decide (R.interFills = s.interFills ++ (if cnt then [Val.zero] else []))
    && decide (R.numpyFills = R.npFill :: (if cnt then [Val.zero] else []))
    -- numpy_groupies' `_len` wrapper (and its NaN-dropping for `nansum_of_squares`) returns the *fill* for an
    -- all-NaN group, so the eager path is only right for these kernels when the fill is 0 (as in the registry)
    && (!(decide (s.kernel = .nanlen) || decide (s.kernel = .nansumsq)) || decide (R.npFill = Val.zero))

/-- the only shape that can fit, read off the first NumPy kernel (and first combine kernel / fill) -/
def Resolved.shapeGuess (R : Resolved) : Option Shape :=
  match R.numpy.head? with
  | some .mean => some (.mean false)
  | some .nanmean => some (.mean true)
  | some (.var d) => some (.var false d)
  | some (.nanvar d) => some (.var true d)
  | some k =>
    match R.combine.head?, R.interFills.head? with
    | some c, some f => some (.simple k c f)
    | _, _ => none
  | none => none

/-- decidable classification of a resolved blueprint -/
def Resolved.shape? (R : Resolved) : Option Shape :=
  match R.shapeGuess with
  | some s => if s.fits R then some s else none
  | none => none

end Flox
