/-
  Model of flox's own numeric engine, `flox/aggregate_flox.py`:
  `_prepare_for_flox` (stable argsort by code), `_np_grouped_op` (segment starts + `ufunc.reduceat`
  + scatter into `np.full(size, fill)`), `_nan_grouped_op` (substitute NaN, reduce, then replace
  results equal to a ±inf substitute by `fill`), `nanlen`, `sum_of_squares`, `mean`, `nanmean`.
-/
import FloxModel.Kernels

namespace Flox
namespace EngineFlox

/-- stable sort by key: model of `group_idx.argsort(kind="stable")` applied to both arrays.
    (Insertion from the right keeps equal keys in original order.) -/
def ssort : List (Int × Val) → List (Int × Val)
  | [] => []
  | p :: ps => insertByKeyFront p (ssort ps)
where
  /-- insert `p` *before* any element with an equal key (p came first in the original order) -/
  insertByKeyFront (p : Int × Val) : List (Int × Val) → List (Int × Val)
    | [] => [p]
    | q :: qs => if p.1 ≤ q.1 then p :: q :: qs else q :: insertByKeyFront p qs

/-- `_prepare_for_flox`: sort only when not already sorted (same result either way). -/
def isSortedKeys : List (Int × Val) → Bool
  | [] => true
  | [_] => true
  | p :: q :: rest => decide (p.1 ≤ q.1) && isSortedKeys (q :: rest)

def prepare (codes : List Int) (vals : List Val) : List (Int × Val) :=
  let z := codes.zip vals
  if isSortedKeys z then z else ssort z

/-- runs of consecutive equal keys: `flag`, `uniques`, `inv_idx` and the reduceat segments. -/
def segments : List (Int × Val) → List (Int × List Val)
  | [] => []
  | (k, v) :: rest =>
    match segments rest with
    | (k', vs) :: segs => if k = k' then (k, v :: vs) :: segs else (k, [v]) :: (k', vs) :: segs
    | [] => [(k, [v])]

/-- `ufunc.reduceat` on one segment: a fold seeded with the segment's first element -/
def reduceSeg (op : Val → Val → Val) (seg : List Val) : Val := fold1 op Val.nan seg

/-- `_np_grouped_op`: `out = np.full(size, fill); out[uniques] = op.reduceat(array, inv_idx)` -/
def npGroupedOp (op : Val → Val → Val) (sorted : List (Int × Val)) (size : Nat) (fill : Val) : List Val :=
  let segs := segments sorted
  (List.range size).map fun (g : Nat) =>
    match segs.lookup (Int.ofNat g) with
    | some ms => reduceSeg op ms
    | none => fill

def substNaN (s : Val) (sorted : List (Int × Val)) : List (Int × Val) :=
  sorted.map fun p => (p.1, if p.2.isNaN then s else p.2)

def notNullVals (sorted : List (Int × Val)) : List (Int × Val) :=
  sorted.map fun p => (p.1, if p.2.isNaN then Val.zero else Val.one)

/-- `_nan_grouped_op`: when the substitute is ±inf, a result equal to it *in a group without any valid value*
    (count of non-NaN members = 0) becomes `fill`. -/
def nanGroupedOp (op : Val → Val → Val) (subst : Val) (sorted : List (Int × Val)) (size : Nat) (fill : Val) :
    List Val :=
  let r := npGroupedOp op (substNaN subst sorted) size fill
  if subst = Val.pinf ∨ subst = Val.ninf then
    let nvalid := npGroupedOp Val.add (notNullVals sorted) size Val.zero
    List.zipWith (fun x n => if x = subst ∧ n = Val.zero then fill else x) r nvalid
  else r

def sqVals (sorted : List (Int × Val)) : List (Int × Val) := sorted.map fun p => (p.1, Val.mul p.2 p.2)
/-- the kernels `aggregate_flox` defines; `none` = falls back to numpy_groupies -/
def run? (k : Kernel) (codes : List Int) (vals : List Val) (size : Nat) (fill : Val) : Option (List Val) :=
  let s := prepare codes vals
  match k with
  | .sum => some (npGroupedOp Val.add s size fill)
  | .nansum => some (nanGroupedOp Val.add Val.zero s size fill)
  | .prod => some (npGroupedOp Val.mul s size fill)
  | .nanprod => some (nanGroupedOp Val.mul Val.one s size fill)
  | .max => some (npGroupedOp Val.max s size fill)
  | .nanmax => some (nanGroupedOp Val.max Val.ninf s size fill)
  | .min => some (npGroupedOp Val.min s size fill)
  | .nanmin => some (nanGroupedOp Val.min Val.pinf s size fill)
  | .sumsq => some (npGroupedOp Val.add (sqVals s) size fill)
  | .nansumsq => some (npGroupedOp Val.add (sqVals (substNaN Val.zero s)) size fill)
  | .nanlen => some (npGroupedOp Val.add (notNullVals s) size fill)
  | .mean =>
      let num := npGroupedOp Val.add s size fill
      let den := npGroupedOp Val.add (notNullVals s) size Val.zero
      some (List.zipWith Val.div num den)
  | .nanmean =>
      let num := nanGroupedOp Val.add Val.zero s size fill
      let den := npGroupedOp Val.add (notNullVals s) size Val.zero
      some (List.zipWith Val.div num den)
  | _ => none

end EngineFlox
end Flox
