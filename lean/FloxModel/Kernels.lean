/-
  Kernels: NumPy's reductions over the (non-empty, ordered) member list of one group, and the
  grouped kernel contract `grouped` (one slot per code 0..size-1; empty slot = fill).

  These definitions are the *specification side*: they are written from NumPy's documented
  semantics, not from flox's code.  The flox engine (sort + reduceat) is modelled separately in
  `EngineFlox.lean` and proved equal to `grouped`.
-/
import FloxModel.Val

namespace Flox

/-- kernel names that appear in the registry (`chunk`, `combine`, `numpy` fields) -/
inductive Kernel where
  | sum | nansum | prod | nanprod
  | max | nanmax | min | nanmin
  | nanlen | len
  | sumsq | nansumsq
  | all | any
  | first | last | nanfirst | nanlast
  | mean | nanmean
  | var (ddof : Nat) | nanvar (ddof : Nat)
  | argmax | argmin | nanargmax | nanargmin
deriving DecidableEq, Repr, Inhabited

namespace Kernel

def ofString? : String → Option Kernel
  | "sum" => some sum | "nansum" => some nansum
  | "prod" => some prod | "nanprod" => some nanprod
  | "max" => some max | "nanmax" => some nanmax
  | "min" => some min | "nanmin" => some nanmin
  | "nanlen" => some nanlen | "len" => some len
  | "sum_of_squares" => some sumsq | "nansum_of_squares" => some nansumsq
  | "all" => some all | "any" => some any
  | "first" => some first | "last" => some last
  | "nanfirst" => some nanfirst | "nanlast" => some nanlast
  | "mean" => some mean | "nanmean" => some nanmean
  | "var" => some (var 0) | "nanvar" => some (nanvar 0)
  | "argmax" => some argmax | "argmin" => some argmin
  | "nanargmax" => some nanargmax | "nanargmin" => some nanargmin
  | _ => none

/-- does the kernel skip NaN members? -/
def skipsNaN : Kernel → Bool
  | nansum | nanprod | nanmax | nanmin | nanlen | nansumsq | nanfirst | nanlast
  | nanmean | nanvar _ | nanargmax | nanargmin => true
  | _ => false

end Kernel

def dropNaN (xs : List Val) : List Val := xs.filter (fun v => !v.isNaN)

def vsum (xs : List Val) : Val := xs.foldl Val.add Val.zero
def vprod (xs : List Val) : Val := xs.foldl Val.mul Val.one

/-- fold of a binary operation over a non-empty list, seeded with the head (ufunc.reduce) -/
def fold1 (op : Val → Val → Val) (dflt : Val) : List Val → Val
  | [] => dflt
  | x :: xs => xs.foldl op x

def vmax (xs : List Val) : Val := fold1 Val.max Val.ninf xs
def vmin (xs : List Val) : Val := fold1 Val.min Val.pinf xs

def vcount (xs : List Val) : Val := Val.ofNat xs.length

def vmean (xs : List Val) : Val := Val.div (vsum xs) (vcount xs)

/-- two-pass variance `np.var(xs, ddof)`; NaN when `len ≤ ddof` (flox's documented convention) -/
def vvar (ddof : Nat) (xs : List Val) : Val :=
  if xs.length ≤ ddof then Val.nan
  else
    let m := vmean xs
    let devs := xs.map (fun x => let d := Val.sub x m; Val.mul d d)
    Val.div (vsum devs) (Val.ofInt ((xs.length : Int) - (ddof : Int)))

/-- index (as a Val) of the first element that is strictly better than everything before it
    and not worse than anything after: i.e. first occurrence of the extreme. -/
def argBest (better : Val → Val → Bool) : List Val → Nat
  | [] => 0
  | x :: xs =>
    let rec go (best : Val) (bi : Nat) (i : Nat) : List Val → Nat
      | [] => bi
      | y :: ys => if better y best then go y i (i+1) ys else go best bi (i+1) ys
    go x 0 1 xs

/-- positions of non-NaN members -/
def firstNonNaN : List Val → Val
  | [] => Val.nan
  | x :: xs => if x.isNaN then firstNonNaN xs else x

def lastNonNaN (xs : List Val) : Val := firstNonNaN xs.reverse

/-- NumPy reduction of the members of one group (list is non-empty for a present group).
    For the nan-skipping min/max/first/last/mean/var an all-NaN group yields NaN, as in NumPy. -/
def kEval : Kernel → List Val → Val
  | .sum, xs => vsum xs
  | .nansum, xs => vsum (dropNaN xs)
  | .prod, xs => vprod xs
  | .nanprod, xs => vprod (dropNaN xs)
  | .max, xs => vmax xs
  | .nanmax, xs => let ys := dropNaN xs; if ys.isEmpty then Val.nan else vmax ys
  | .min, xs => vmin xs
  | .nanmin, xs => let ys := dropNaN xs; if ys.isEmpty then Val.nan else vmin ys
  | .nanlen, xs => vcount (dropNaN xs)
  | .len, xs => vcount xs
  | .sumsq, xs => vsum (xs.map fun x => Val.mul x x)
  | .nansumsq, xs => vsum ((dropNaN xs).map fun x => Val.mul x x)
  | .all, xs => Val.ofBool (xs.all Val.truthy)
  | .any, xs => Val.ofBool (xs.any Val.truthy)
  | .first, xs => xs.headD Val.nan
  | .last, xs => xs.getLastD Val.nan
  | .nanfirst, xs => firstNonNaN xs
  | .nanlast, xs => lastNonNaN xs
  | .mean, xs => vmean xs
  | .nanmean, xs => vmean (dropNaN xs)
  | .var d, xs => vvar d xs
  | .nanvar d, xs => vvar d (dropNaN xs)
  | .argmax, xs => Val.ofNat (argBest (fun y b => Val.lt b y || (y.isNaN && !b.isNaN)) xs)
  | .argmin, xs => Val.ofNat (argBest (fun y b => Val.lt y b || (y.isNaN && !b.isNaN)) xs)
  | .nanargmax, xs => Val.ofNat (argBest (fun y b => Val.lt b y || (b.isNaN && !y.isNaN)) xs)
  | .nanargmin, xs => Val.ofNat (argBest (fun y b => Val.lt y b || (b.isNaN && !y.isNaN)) xs)

/-- members of group `g` in original order -/
def members (g : Int) : List Int → List Val → List Val
  | c :: cs, v :: vs => if c = g then v :: members g cs vs else members g cs vs
  | _, _ => []

/-- The grouped-kernel contract: slot `g` holds the reduction of the members with code `g`
    (original order); a slot without members holds `fill`. Codes outside `0..size-1` are ignored. -/
def grouped (k : Kernel) (codes : List Int) (vals : List Val) (size : Nat) (fill : Val) : List Val :=
  (List.range size).map fun (g : Nat) =>
    let ms := members (Int.ofNat g) codes vals
    if ms.isEmpty then fill else kEval k ms

end Flox
