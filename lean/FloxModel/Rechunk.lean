/-
  Rechunk: executable model of flox's rechunking helpers (core Lean only).

  * `optimal`      ↔ `flox.core._get_optimal_chunks_for_groups(chunks, labels)` (memoised; labels are factorised codes)
  * `blockwise`    ↔ the chunk computation of `flox.core.rechunk_for_blockwise` (factorise, then `optimal`)
  * `cohorts`      ↔ the division loop of `flox.core.rechunk_for_cohorts` (incl. the two `ValueError`s and the
                      `chunksize=None` default)

  and the specification of property C17 (`ValidChunks`, `NoStraddle`, `ForcedStart`, `KeepsOld`, `OneBlockPerLabel`),
  written from the property text only (chunks, boundaries, labels – no flox internals).

  The xarray flavours (`flox.xarray._rechunk`) only map the array-level helper over the dask-backed variables of the
  object along `get_axis_num(dim)`; they add no chunk arithmetic and are tied by execution in the harness.
-/

namespace Flox.Rechunk

/-! ## NumPy pieces -/

/-- `acc + np.cumsum(chunks)` -/
def cumsumFrom (acc : Nat) : List Nat → List Nat
  | [] => []
  | c :: cs => (acc + c) :: cumsumFrom (acc + c) cs

/-- `np.cumsum` -/
def cumsum (chunks : List Nat) : List Nat := cumsumFrom 0 chunks

/-- `np.diff` of a list of indices -/
def diff : List Nat → List Nat
  | a :: b :: rest => (b - a) :: diff (b :: rest)
  | _ => []

/-- insertion into a strictly ascending list, dropping duplicates -/
def insertSorted (x : Nat) : List Nat → List Nat
  | [] => [x]
  | y :: ys => if x < y then x :: y :: ys else if x = y then y :: ys else y :: insertSorted x ys

/-- `_unique` = `np.sort(pd.unique(a))` -/
def sortedUnique (xs : List Nat) : List Nat := xs.foldr insertSorted []

/-- `npg.aggregate(labels, arange(n), func="first")[v]` (fill value 0 for a code that does not occur) -/
def firstIdx (labels : List Nat) (v : Nat) : Nat :=
  if v ∈ labels then labels.idxOf v else 0

/-- `npg.aggregate(labels, arange(n), func="last")[v]` (fill value 0 for a code that does not occur) -/
def lastIdx (labels : List Nat) (v : Nat) : Nat :=
  if v ∈ labels then labels.length - 1 - labels.reverse.idxOf v else 0

/-- `abs(a - b)` on integers -/
def absdiff (a b : Nat) : Nat := (a - b) + (b - a)

/-! ## `_get_optimal_chunks_for_groups` -/

/-- the `for c, f, l in zip(chunkidx, firstidx, lastidx)` loop; `last` = `newchunkidx[-1]`, result = appended items -/
def optLoop : Nat → List (Nat × Nat × Nat) → List Nat
  | _, [] => []
  | last, (c, f, l) :: rest =>
    if c = 0 ∨ last > l then optLoop last rest
    else if absdiff c f < absdiff c l ∧ f > last then f :: optLoop f rest
    else (l + 1) :: optLoop (l + 1) rest

/-- `if newchunkidx[-1] != total: newchunkidx.append(total)` -/
def closeIdx (total : Nat) (xs : List Nat) : List Nat :=
  if xs.getLastD 0 ≠ total then xs ++ [total] else xs

/-- the list `newchunkidx` after the final conditional append -/
def optIdx (chunks labels : List Nat) : List Nat :=
  let cidx := (cumsum chunks).map (· - 1)
  let bl := sortedUnique (cidx.filterMap (labels[·]?))
  let lastidx := bl.map (lastIdx labels)
  let firstidx := bl.map (firstIdx labels)
  closeIdx (cidx.getLastD 0 + 1) (0 :: optLoop 0 (cidx.zip (firstidx.zip lastidx)))

/-- `_get_optimal_chunks_for_groups(chunks, labels)`; documented domain: `chunks` positive, summing to `len(labels)` -/
def optimal (chunks labels : List Nat) : List Nat :=
  let cidx := (cumsum chunks).map (· - 1)
  let bl := sortedUnique (cidx.filterMap (labels[·]?))
  let lastidx := bl.map (lastIdx labels)
  if cidx = lastidx then chunks      -- `len(chunkidx) == len(lastidx) and (chunkidx == lastidx).all()`
  else diff (optIdx chunks labels)

/-! ## `factorize_((labels,), axes=())[0]` and `rechunk_for_blockwise` -/

/-- insertion into a strictly ascending list of integers, dropping duplicates -/
def insertSortedInt (x : Int) : List Int → List Int
  | [] => [x]
  | y :: ys => if x < y then x :: y :: ys else if x = y then y :: ys else y :: insertSortedInt x ys

/-- the sorted distinct non-missing labels (`found_groups`) -/
def foundGroups (raw : List (Option Int)) : List Int := (raw.filterMap id).foldr insertSortedInt []

/-- code of one label: rank among the sorted distinct labels; a missing label (NaN) gets the sentinel `ngroups` -/
def codeOf (groups : List Int) : Option Int → Nat
  | none => groups.length
  | some x => groups.idxOf x

/-- `factorize_((labels,), axes=())[0]` -/
def factorize (raw : List (Option Int)) : List Nat := raw.map (codeOf (foundGroups raw))

/-- new chunks computed by `rechunk_for_blockwise(array, axis, labels)` for `array.chunks[axis] = chunks` -/
def blockwise (chunks : List Nat) (raw : List (Option Int)) : List Nat := optimal chunks (factorize raw)

/-! ## `rechunk_for_cohorts` -/

/-- `np.nonzero(mask)[0]`, offset by `k` -/
def nonzeroFrom (k : Nat) : List Bool → List Nat
  | [] => []
  | b :: bs => if b then k :: nonzeroFrom (k + 1) bs else nonzeroFrom (k + 1) bs

/-- `np.nonzero(isbreak[idx:])[0]` for the suffix `rest = labels[idx:]` -/
def nextBreaks (forced : List Int) (rest : List Int) : List Nat :=
  nonzeroFrom 0 (rest.map fun l => decide (l ∈ forced))

/-- `next_break_is_close` (note `next_break.any()` tests the *indices* for being non-zero) -/
def nextBreakIsClose (forced : List Int) (chunksize : Nat) (rest : List Int) : Bool :=
  let nb := nextBreaks forced rest
  if nb.any (· ≠ 0) then decide (nb.headD 0 ≤ chunksize / 2) else false

/-- the division loop: the indices appended to `divisions`, in order, for `labels[idx:] = rest` -/
def cohLoop (forced : List Int) (oldbreaks : List Nat) (chunksize : Nat) (ignoreOld : Bool) :
    Nat → List Int → Nat → List Nat
  | _, [], _ => []
  | idx, lab :: tl, counter =>
    if lab ∈ forced ∨ idx = 0 then idx :: cohLoop forced oldbreaks chunksize ignoreOld (idx + 1) tl 1
    else if (!ignoreOld && decide (idx ∈ oldbreaks))
          || (decide (counter ≥ chunksize) && !nextBreakIsClose forced chunksize (lab :: tl)) then
      idx :: cohLoop forced oldbreaks chunksize ignoreOld (idx + 1) tl 1
    else cohLoop forced oldbreaks chunksize ignoreOld (idx + 1) tl (counter + 1)

/-- insertion sort (only used for the median) -/
def insertOrd (x : Nat) : List Nat → List Nat
  | [] => [x]
  | y :: ys => if x ≤ y then x :: y :: ys else y :: insertOrd x ys

/-- `np.median(chunks).astype(int)` (truncation of the mean of the two middle elements) -/
def medianInt (xs : List Nat) : Nat :=
  let s := xs.foldr insertOrd []
  let m := s.length
  if m % 2 = 1 then s.getD (m / 2) 0 else (s.getD (m / 2 - 1) 0 + s.getD (m / 2) 0) / 2

/-- new chunks computed by `rechunk_for_cohorts` for `array.chunks[axis] = oldchunks`, or the kind of `ValueError` -/
def cohorts (oldchunks : List Nat) (labels forced : List Int) (chunksize : Option Nat) (ignoreOld : Bool) :
    Except String (List Nat) :=
  let cs := chunksize.getD (medianInt oldchunks)
  if labels.length ≠ oldchunks.sum then .error "labels-length"
  else if ¬ (labels.any fun l => decide (l ∈ forced)) then .error "no-forced-label"
  else
    let oldbreaks := 0 :: cumsum oldchunks
    let divisions := cohLoop forced oldbreaks cs ignoreOld 0 labels 1 ++ [labels.length]
    .ok (diff divisions)

/-! ## Specification of C17 (from the property text) -/

/-- chunks along the axis are positive and sum to the axis length -/
def ValidChunks (n : Nat) (chunks : List Nat) : Prop := (∀ c ∈ chunks, 0 < c) ∧ chunks.sum = n

/-- positions at which a chunk starts -/
def startsFrom (a : Nat) : List Nat → List Nat
  | [] => []
  | c :: cs => a :: startsFrom (a + c) cs

def starts (chunks : List Nat) : List Nat := startsFrom 0 chunks

/-- chunk boundaries (the end of every chunk) -/
def ends (chunks : List Nat) : List Nat := cumsum chunks

/-- no label occurs on both sides of a chunk boundary -/
def NoStraddle {α} (labels : List α) (chunks : List Nat) : Prop :=
  ∀ b ∈ ends chunks, ∀ v ∈ labels.take b, v ∉ labels.drop b

/-- the blocks of an array chunked by `chunks` -/
def splitBy {α} : List Nat → List α → List (List α)
  | [], _ => []
  | c :: cs, xs => xs.take c :: splitBy cs (xs.drop c)

/-- every label lives in one block only (what `method="blockwise"` needs to be exact) -/
def OneBlockPerLabel {α} (labels : List α) (chunks : List Nat) : Prop :=
  (splitBy chunks labels).Pairwise fun a b => ∀ v ∈ a, v ∉ b

/-- sequential labels: every label forms one contiguous run -/
def Contiguous {α} (labels : List α) : Prop :=
  ∀ (i j k : Nat) (_ : i < j) (_ : j < k) (hk : k < labels.length),
    labels[i] = labels[k] → labels[j] = labels[i]

/-- position 0 and every position holding a forced label start a chunk -/
def ForcedStart {α} (labels : List α) (forced : List α) (chunks : List Nat) : Prop :=
  ∀ (i : Nat) (h : i < labels.length), (i = 0 ∨ labels[i] ∈ forced) → i ∈ starts chunks

/-- all chunk boundaries, including both ends of the axis -/
def bounds (chunks : List Nat) : List Nat := 0 :: ends chunks

/-- every old chunk boundary is a new chunk boundary -/
def KeepsOld (old new : List Nat) : Prop := ∀ b ∈ bounds old, b ∈ bounds new

instance (n : Nat) (chunks : List Nat) : Decidable (ValidChunks n chunks) := by unfold ValidChunks; infer_instance
instance {α} [DecidableEq α] (labels : List α) (chunks : List Nat) : Decidable (NoStraddle labels chunks) := by
  unfold NoStraddle; infer_instance
instance {α} [DecidableEq α] (labels forced : List α) (chunks : List Nat) : Decidable (ForcedStart labels forced chunks) :=
  decidable_of_iff (∀ i : Fin labels.length, (i.val = 0 ∨ labels[i.val] ∈ forced) → i.val ∈ starts chunks)
    ⟨fun h i hi => h ⟨i, hi⟩, fun h i => h i.val i.isLt⟩
instance (old new : List Nat) : Decidable (KeepsOld old new) := by unfold KeepsOld; infer_instance

/-- executable version of `Contiguous` for the driver: a label never reappears after its run ended -/
def contiguousB {α} [DecidableEq α] : List α → Bool
  | [] => true
  | x :: xs => contiguousB xs && (match xs with
      | [] => true
      | y :: _ => decide (x = y) || !(xs.contains x))

/-- executable version of `OneBlockPerLabel` -/
def oneBlockB {α} [DecidableEq α] (labels : List α) (chunks : List Nat) : Bool :=
  let rec go : List (List α) → Bool
    | [] => true
    | a :: rest => rest.all (fun b => a.all fun v => !b.contains v) && go rest
  go (splitBy chunks labels)

end Flox.Rechunk
