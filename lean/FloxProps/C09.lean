/-
  C09 — the cohort planner is sound: labels partitioned, blocks covered, members counted once.

  Model: `Flox.Cohorts.findFromArray` (= `flox.core.find_group_cohorts` with `_compute_label_chunk_bitmask`),
  FloxModel/Cohorts.lean.  Specification: `CohortsSound`, `Confined` (same file, bottom).  Proofs: FloxProofs/Cohorts.lean.
  All theorems hold for every label array, every chunk grid (any number of axes) and ARBITRARY threshold functions
  (`Thresholds`), i.e. they do not depend on the values 0.4 / 0.75 nor on how the floating-point comparison rounds.

  What is proved here is the planner part of the property.  The "consequently" part (dependency closures of the real dask
  graphs; provenance sums) is about dask graph construction, which is not modelled: it is observed by the correspondence
  harness on the real graphs (harness/props_cohorts.py, streams `graph` and `prov`).  `members_counted_once` is the
  model-level form of it.
-/
import FloxProofs.CohortPlanner

namespace Flox.C09
open Flox.Cohorts

/-- the element list the planner works on: (code, flat block index) of every element, row-major -/
abbrev elemsOf (codes : List Int) (chunks : List (List Nat)) : List Elem := codes.zip (blockIds chunks)

abbrev nlabelsOf (codes : List Int) (expected : Option Nat) : Nat :=
  match expected with
  | some n => n
  | none => maxPlusOne codes

/-- (a) Whatever the planner returns is sound – every present label is listed in exactly one cohort, exactly once, and the
    cohort's blocks contain every block that holds a member of any of its labels – or it is the explicit non-plan
    `("map-reduce", {})`, which is only produced with `merge=False` (the caller then does not use cohorts at all).
    No hypothesis. -/
theorem planner_sound (T : Thresholds) (codes : List Int) (chunks : List (List Nat)) (expected : Option Nat) (merge : Bool)
    (m : Method) (cs : List Cohort) (h : findFromArray T codes chunks expected merge = .ok m cs) :
    CohortsSound (elemsOf codes chunks) (nlabelsOf codes expected) cs ∨ (m = .mapreduce ∧ cs = [] ∧ merge = false) := by
  unfold findFromArray at h
  cases expected <;> exact find_sound T (wellFormed_zip codes chunks) h

/-- `method="cohorts"` callers pass `merge=True`: then the returned structure is always sound -/
theorem planner_sound_merge (T : Thresholds) (codes : List Int) (chunks : List (List Nat)) (expected : Option Nat)
    (m : Method) (cs : List Cohort) (h : findFromArray T codes chunks expected true = .ok m cs) :
    CohortsSound (elemsOf codes chunks) (nlabelsOf codes expected) cs := by
  rcases planner_sound T codes chunks expected true m cs h with h | h
  · exact h
  · exact absurd h.2.2 (by simp)

/-- (b) "blockwise" is proposed only if every present label is confined to a single block -/
theorem blockwise_only_if_confined (T : Thresholds) (codes : List Int) (chunks : List (List Nat)) (expected : Option Nat)
    (merge : Bool) (cs : List Cohort) (h : findFromArray T codes chunks expected merge = .ok .blockwise cs) :
    Confined (elemsOf codes chunks) (nlabelsOf codes expected) := by
  unfold findFromArray at h
  cases expected <;> exact find_blockwise_confined T (wellFormed_zip codes chunks) h

/-- (c) with more than one block, a cohort's block list is exactly the union of its labels' blocks (no foreign block) and
    only present labels are listed.  (With a single block the planner returns `{(0,): [0..nlabels-1]}`, absent labels
    included – sound, but not exact.) -/
theorem cohort_blocks_exact (T : Thresholds) (codes : List Int) (chunks : List (List Nat)) (expected : Option Nat)
    (merge : Bool) (m : Method) (cs : List Cohort) (hne : nChunks chunks ≠ 1)
    (h : findFromArray T codes chunks expected merge = .ok m cs) :
    ∀ c ∈ cs, (∀ b ∈ c.1, ∃ l ∈ c.2, ((l : Int), b) ∈ elemsOf codes chunks) ∧
      (∀ l ∈ c.2, l < nlabelsOf codes expected ∧ ∃ e ∈ elemsOf codes chunks, e.1 = (l : Int)) := by
  unfold findFromArray at h
  cases expected <;> exact find_blocks_exact T hne h

/-- every cohort lists its labels in strictly ascending order.  The graph builder (`dask_groupby_agg`) relies on it: the
    per-cohort aggregate step returns values in sorted label order while the declared groups are the cohort's list. -/
theorem cohort_labels_ascending (T : Thresholds) (codes : List Int) (chunks : List (List Nat)) (expected : Option Nat)
    (merge : Bool) (m : Method) (cs : List Cohort) (h : findFromArray T codes chunks expected merge = .ok m cs) :
    ∀ c ∈ cs, c.2.Pairwise (· < ·) := by
  unfold findFromArray at h
  cases expected <;> exact find_labels_ascending T h

/-- members counted once: under a sound cohort structure an element `(l, b)` with a present label is picked up by exactly
    one (cohort, label) slot among the cohorts whose block list includes its block – nothing dropped, nothing doubled -/
theorem members_counted_once (elems : List Elem) (nlabels : Nat) (cs : List Cohort) (h : CohortsSound elems nlabels cs)
    (l b : Nat) (hl : l < nlabels) (he : ((l : Int), b) ∈ elems) :
    (cs.flatMap fun c => if b ∈ c.1 then c.2.filter (· == l) else []).length = 1 :=
  counted_once h hl he

/-- the planner always answers: neither `assert` of the merge loop can fire (repaired code: two merged cohorts with the same
    union of blocks are joined into one).  For arbitrary thresholds that accept full containment (`close n n`, as 0.75 does). -/
theorem planner_always_answers (T : Thresholds) (hclose : ∀ n, 0 < n → T.close n n = true)
    (codes : List Int) (chunks : List (List Nat)) (expected : Option Nat) (merge : Bool) :
    ∀ w, findFromArray T codes chunks expected merge ≠ .internalError w := by
  intro w h
  unfold findFromArray find at h
  have key : ∀ nl,
      plan T (nChunks chunks) (singleChunks chunks) merge (tblOf (elemsOf codes chunks) (nChunks chunks) nl) ≠ .internalError w :=
    fun nl => plan_no_internalError T hclose _ _ _ (tblOf_asc _ _ _) (fun e he => (mem_tblOf.mp he).2.2) w
  cases expected <;> simp only at h <;> split at h <;> first | exact key _ h | cases h

theorem exactThresholds_close (n : Nat) (_ : 0 < n) : exactThresholds.close n n = true := by
  simp [exactThresholds]; omega

/-! ### non-vacuity -/

/-- two hubs (labels 0 and 3, eight blocks each, half overlapping) with two satellites each (3/4 inside their hub): both
    merged cohorts span blocks 0..11 -/
def collisionCodes : List Int :=
  [0,1,2,4, 0,1,2,4, 0,1,2,5, 0,1,2,5, 0,1,2,3, 0,1,2,3, 0,3,4,5, 0,3,4,5, 1,3,4,5, 1,3,4,5, 2,3,4,5, 2,3,4,5]
def collisionChunks : List (List Nat) := [[4,4,4,4,4,4,4,4,4,4,4,4]]

/-- … with the thresholds of the code, no hypothesis at all -/
theorem planner_always_answers_exact (codes : List Int) (chunks : List (List Nat)) (expected : Option Nat) (merge : Bool) :
    ∀ w, findFromArray exactThresholds codes chunks expected merge ≠ .internalError w :=
  planner_always_answers exactThresholds exactThresholds_close codes chunks expected merge

/-- the former counterexample (dict-key collision, finding C09-F12, repaired in /repo 087dacb): both merged cohorts span blocks
    0..11; they are now joined into one cohort that lists every label once, in ascending order -/
example : findFromArray exactThresholds collisionCodes collisionChunks none true
    = .ok .mapreduce [([0,1,2,3,4,5,6,7,8,9,10,11], [0,1,2,3,4,5])] := by decide +kernel

example : CohortsSound (elemsOf collisionCodes collisionChunks) 6 [([0,1,2,3,4,5,6,7,8,9,10,11], [0,1,2,3,4,5])] := by
  decide +kernel

/-- the merge loop really runs and merges (labels 1, 2 join label 0's cohort; 3 joins 4's): the hypotheses of `planner_sound`
    are satisfiable on a non-trivial input with a missing label and a label (5) absent from the array -/
def exCodes : List Int := [0,1, 0,1, 0,2, 0,2, 3,4, 3,4, 4,-1]
def exChunks : List (List Nat) := [[2,2,2,2,2,2,2]]

example : findFromArray exactThresholds exCodes exChunks (some 6) false
    = .ok .cohorts [([0,1,2,3], [0,1,2]), ([4,5,6], [3,4])] := by decide +kernel

example : CohortsSound (elemsOf exCodes exChunks) 6 [([0,1,2,3], [0,1,2]), ([4,5,6], [3,4])] := by decide +kernel

/-- a structure that misses one block (block 6 of label 4) is rejected by the specification -/
example : ¬ CohortsSound (elemsOf exCodes exChunks) 6 [([0,1,2,3], [0,1,2]), ([4,5], [3,4])] := by decide +kernel

/-- … and so is one that lists a label twice -/
example : ¬ CohortsSound (elemsOf exCodes exChunks) 6 [([0,1,2,3], [0,1,2]), ([4,5,6], [3,4]), ([0,1], [1])] := by
  decide +kernel

example : ¬ Confined (elemsOf exCodes exChunks) 6 := by decide +kernel

/-- 2-D labels on a 2×2 chunk grid, blockwise proposed, and the labels are confined -/
example : findFromArray exactThresholds [0,0,1, 0,0,1, 2,2,-1] [[2,1],[2,1]] none false
    = .ok .blockwise [([0],[0]), ([1],[1]), ([2],[2])] := by decide +kernel

example : Confined (elemsOf [0,0,1, 0,0,1, 2,2,-1] [[2,1],[2,1]]) 3 := by decide +kernel

end Flox.C09
