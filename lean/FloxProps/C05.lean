/-
  C05 — one output slot per requested label; `fill_value` and `min_count` honoured exactly.

  The specification `Spec.reduce` (`FloxModel/Spec.lean`, written from NumPy's semantics only) IS this property:

      Spec.slot k minCount userFill ms =
        if ms.isEmpty then userFill                               -- the label never occurs: the user's fill, verbatim
        else if validCount ms < minCount then userFill            -- fewer than `min_count` non-NaN members: the fill
        else some (kEval k ms)                                    -- the NumPy reduction of the members, original order
      Spec.reduce k minCount userFill codes vals n =
        (List.range n).mapM fun g => Spec.slot k minCount userFill (members g codes vals)
                                                                  -- `none` = a fill is required but none was given

    §1  what `Spec.reduce` says, as lemmas: exactly `n` slots; absent label ↦ fill verbatim; below `min_count` ↦ fill;
        otherwise the NumPy value; `none` exactly when a fill is needed and missing; elements whose code is outside
        `0..n-1` (missing labels, labels not requested: code `-1`) influence no slot
    §2  every plan returns `Spec.reduce` (`ValueError` where it is `none`): eager, map-reduce with either reindex mode,
        cohorts, blockwise – restated from C01 / C02 with `Spec.reduce` spelled out
    §3  the returned labels are the requested ones, in the requested order
    §4  the implicit `min_count` rule of `groupby_reduce` (`effective`)
    §5  the open finding F9: without the count mask an ABSENT requested label does not get the user's fill on the eager
        and `reindex=True` paths – the reason for the hypothesis `H_absent` in §2

  Property theorems only (helper lemmas live in FloxProofs; `FloxProofs/SpecLemmas.lean` for §1 and §3).
  Vocabulary as in C02 (`codeKeys`, `CodesOK`, `HAbsent`, `HAllNaN`, `HMinMax`, `HDropped`, `CohortsSound`,
  `HCohortFill`, `BW.EachLabelInOneBlock`, `BW.HDropped`, `BW.HSomeLabel`).
-/
import FloxProofs.SpecLemmas
import FloxProofs.EndToEnd
import FloxProofs.EndToEndSparse
import FloxProofs.Cohorts
import FloxProofs.Blockwise
import FloxProofs.LabelOrder
import FloxProofs.EndToEndExamples
import FloxProofs.EndToEndSparseExamples

namespace Flox.C05

/-! ## §1 the specification says what the property says -/

/-- exactly one slot per requested label -/
theorem spec_length (k : Kernel) (minCount : Nat) (userFill : Option Val) (codes : List Int) (vals : List Val)
    (n : Nat) (vs : List Val) (h : Spec.reduce k minCount userFill codes vals n = some vs) : vs.length = n :=
  SpecL.reduce_length k minCount userFill codes vals n vs h

/-- a requested label that never occurs gets the user's fill VERBATIM (whatever it is: NaN, 0, a negative number –
    `userFill` is an arbitrary `Option Val`; for every kernel, arg-reductions included) -/
theorem spec_absent_label_gets_fill (k : Kernel) (minCount : Nat) (userFill : Option Val) (codes : List Int)
    (vals : List Val) (n : Nat) (vs : List Val) (h : Spec.reduce k minCount userFill codes vals n = some vs)
    (g : Nat) (hg : g < n) (habsent : members (Int.ofNat g) codes vals = []) : vs[g]? = userFill := by
  rw [SpecL.reduce_getElem? k minCount userFill codes vals n vs h g hg]
  exact SpecL.slotAt_needsFill k minCount userFill codes vals g (Or.inl habsent)

/-- a label with fewer than `min_count` non-NaN members gets the user's fill -/
theorem spec_below_min_count_gets_fill (k : Kernel) (minCount : Nat) (userFill : Option Val) (codes : List Int)
    (vals : List Val) (n : Nat) (vs : List Val) (h : Spec.reduce k minCount userFill codes vals n = some vs)
    (g : Nat) (hg : g < n) (hlow : Spec.validCount (members (Int.ofNat g) codes vals) < minCount) :
    vs[g]? = userFill := by
  rw [SpecL.reduce_getElem? k minCount userFill codes vals n vs h g hg]
  exact SpecL.slotAt_needsFill k minCount userFill codes vals g (Or.inr hlow)

/-- a label that occurs and has at least `min_count` non-NaN members gets the NumPy reduction of its members (in
    original order) – the fill plays no role (non-arg kernels; for arg-reductions the value is mapped to the position
    along the whole axis, see C06) -/
theorem spec_present_label_gets_value (k : Kernel) (hk : Spec.isArg k = false) (minCount : Nat)
    (userFill : Option Val) (codes : List Int) (vals : List Val) (n : Nat) (vs : List Val)
    (h : Spec.reduce k minCount userFill codes vals n = some vs)
    (g : Nat) (hg : g < n) (hpresent : members (Int.ofNat g) codes vals ≠ [])
    (hcount : minCount ≤ Spec.validCount (members (Int.ofNat g) codes vals)) :
    vs[g]? = some (kEval k (members (Int.ofNat g) codes vals)) := by
  rw [SpecL.reduce_getElem? k minCount userFill codes vals n vs h g hg]
  exact SpecL.slotAt_value k minCount userFill codes vals g hk (by
    rintro (h' | h')
    · exact hpresent h'
    · omega)

/-- the specification refuses (`none`, flox's `ValueError: Filling is required`) exactly when no fill was given and
    some requested label is absent or below `min_count` -/
theorem spec_refuses_iff (k : Kernel) (minCount : Nat) (userFill : Option Val) (codes : List Int) (vals : List Val)
    (n : Nat) :
    Spec.reduce k minCount userFill codes vals n = none
      ↔ userFill = none ∧ ∃ g, g < n ∧ (members (Int.ofNat g) codes vals = []
          ∨ Spec.validCount (members (Int.ofNat g) codes vals) < minCount) :=
  SpecL.reduce_eq_none_iff k minCount userFill codes vals n

/-- **dropped elements influence no slot**: removing every element whose code lies outside `0..n-1` (missing labels
    and labels that were not requested are coded `-1`) leaves the whole result unchanged (non-arg kernels: for
    arg-reductions removing elements shifts the positions that are returned) -/
theorem spec_dropped_elements_ignored (k : Kernel) (hk : Spec.isArg k = false) (minCount : Nat)
    (userFill : Option Val) (codes : List Int) (vals : List Val) (n : Nat) :
    Spec.reduce k minCount userFill
        (((codes.zip vals).filter fun p => decide (0 ≤ p.1 ∧ p.1 < (n : Int))).map (·.1))
        (((codes.zip vals).filter fun p => decide (0 ≤ p.1 ∧ p.1 < (n : Int))).map (·.2)) n
      = Spec.reduce k minCount userFill codes vals n :=
  SpecL.reduce_keepRequested k hk minCount userFill codes vals n

/-! ## §2 every plan returns `Spec.reduce` -/

/-- **eager** (numpy_groupies engine; `C01.eager_eq_spec`, and `C01.eager_eq_spec_flox` for flox's engine).
    `H_absent`: see §5.  `H_allnan`: nanmax / nanmin / nanfirst / nanlast / nanmean / nanvar get the NumPy fill for an
    all-NaN group, which must be NaN unless the count mask is on (`E2E.H_allnan_counterexample`). -/
theorem eager_returns_spec (R : Resolved) (s : Shape) (c : Call) (n : Nat) (floatData : Bool)
    (chunks : List Nat) (codes : List Int) (vals : List Val)
    (hR : c.R = R) (heng : c.eng = .npg) (hn : c.ngroups = n) (hknown : c.knownLabels = true)
    (hshape : R.shape? = some s) (hcodes : CodesOK codes n) (hlen : codes.length = vals.length)
    (H_absent : ∀ g : Nat, g < n → HAbsent R (members (Int.ofNat g) codes vals))
    (H_allnan : HAllNaN R s) :
    runKnown c .eager floatData chunks (codeKeys codes) vals
      = (match Spec.reduce s.kernel R.minCount R.userFill codes vals n with
          | some vs => .ok vs
          | none => .error "ValueError") :=
  Flox.eager_eq_spec R s c n floatData chunks codes vals hR heng hn hknown hshape hcodes hlen H_absent H_allnan

/-- **map-reduce, `reindex=True`**, any chunking, any `split_every` (`C02.mapreduce_dense_eq_spec`) -/
theorem mapreduce_dense_returns_spec (R : Resolved) (s : Shape) (c : Call) (n : Nat) (floatData : Bool)
    (chunks : List Nat) (codes : List Int) (vals : List Val)
    (hR : c.R = R) (heng : c.eng = .npg) (hn : c.ngroups = n) (hknown : c.knownLabels = true)
    (hshape : R.shape? = some s) (hcodes : CodesOK codes n) (hlen : codes.length = vals.length)
    (H_absent : ∀ g : Nat, g < n → HAbsent R (members (Int.ofNat g) codes vals))
    (H_minmax : HMinMax R s)
    (hchunks : chunks ≠ []) (hsum : chunks.sum = codes.length)
    (hcombine : useGroupedCombine c floatData = false) :
    runKnown c (.mapreduce true) floatData chunks (codeKeys codes) vals
      = (match Spec.reduce s.kernel R.minCount R.userFill codes vals n with
          | some vs => .ok vs
          | none => .error "ValueError") :=
  Flox.mapreduce_dense_eq_spec R s c n floatData chunks codes vals hR heng hn hknown hshape hcodes hlen H_absent
    H_minmax hchunks hsum hcombine

/-- **map-reduce, `reindex=False`** (`C02.mapreduce_sparse_eq_spec`): NO `H_absent` – the final reindex fills absent
    labels with the user's fill, exactly as the specification says -/
theorem mapreduce_sparse_returns_spec (R : Resolved) (s : Shape) (c : Call) (n : Nat) (floatData : Bool)
    (chunks : List Nat) (codes : List Int) (vals : List Val)
    (hR : c.R = R) (heng : c.eng = .npg) (hn : c.ngroups = n) (hknown : c.knownLabels = true)
    (hshape : R.shape? = some s) (hcodes : CodesOK codes n) (hlen : codes.length = vals.length)
    (H_dropped : HDropped R n codes vals) (H_minmax : HMinMax R s)
    (hsum : chunks.sum = codes.length)
    (hcombine : useGroupedCombine c floatData = false) :
    runKnown c (.mapreduce false) floatData chunks (codeKeys codes) vals
      = (match Spec.reduce s.kernel R.minCount R.userFill codes vals n with
          | some vs => .ok vs
          | none => .error "ValueError") :=
  Flox.mapreduce_sparse_eq_spec R s c n floatData chunks codes vals hR heng hn hknown hshape hcodes hlen H_dropped
    H_minmax hsum hcombine

/-- **cohorts**, any sound cohort structure (`C02.cohorts_eq_spec`): `H_absent` only for labels that are in a cohort;
    labels in no cohort are filled by the final reindex with the `fill_value` argument (`HCohortFill`) -/
theorem cohorts_returns_spec (R : Resolved) (s : Shape) (c : Call) (n : Nat) (floatData : Bool)
    (chunks : List Nat) (codes : List Int) (vals : List Val) (cs : List (List Nat × List Rat))
    (hR : c.R = R) (heng : c.eng = .npg) (hn : c.ngroups = n) (hknown : c.knownLabels = true)
    (hshape : R.shape? = some s) (hlen : codes.length = vals.length)
    (hsound : CohortsSound chunks codes n cs)
    (H_absent : ∀ co ∈ cs, ∀ g : Nat, ((g : Nat) : Rat) ∈ co.2 → HAbsent R (members (Int.ofNat g) codes vals))
    (H_minmax : HMinMax R s)
    (H_fill : HCohortFill c R n cs)
    (hsum : chunks.sum = codes.length)
    (hcombine : useGroupedCombine c floatData = false) :
    runKnown c (.cohorts cs) floatData chunks (codeKeys codes) vals
      = (match Spec.reduce s.kernel R.minCount R.userFill codes vals n with
          | some vs => .ok vs
          | none => .error "ValueError") :=
  Flox.cohorts_eq_spec R s c n floatData chunks codes vals cs hR heng hn hknown hshape hlen hsound H_absent H_minmax
    H_fill hsum hcombine

/-- **blockwise**, when every label lies within one block (`C02.blockwise_eq_spec`): NO `H_absent` -/
theorem blockwise_returns_spec (R : Resolved) (s : Shape) (c : Call) (n : Nat) (floatData : Bool)
    (chunks : List Nat) (codes : List Int) (vals : List Val)
    (hR : c.R = R) (heng : c.eng = .npg) (hn : c.ngroups = n) (hknown : c.knownLabels = true)
    (hshape : R.shape? = some s) (hcodes : CodesOK codes n) (hlen : codes.length = vals.length)
    (hsum : chunks.sum = codes.length) (hpos : ∀ k ∈ chunks, 0 < k)
    (hone : BW.EachLabelInOneBlock chunks codes)
    (hfill : c.fillArg = R.userFill) (H_allnan : HAllNaN R s)
    (H_dropped : BW.HDropped R (segsOf chunks codes vals)) (H_somelabel : BW.HSomeLabel R codes n) :
    runKnown c (.blockwise false) floatData chunks (codeKeys codes) vals
      = (match Spec.reduce s.kernel R.minCount R.userFill codes vals n with
          | some vs => .ok vs
          | none => .error "ValueError") :=
  BW.blockwise_eq_spec R s c n floatData chunks codes vals hR heng hn hknown hshape hcodes hlen hsum hpos hone hfill
    H_allnan H_dropped H_somelabel

/-- consequence for every plan above: an `ok` result has exactly one slot per requested label.  (Stated for an
    arbitrary computation `r` that equals the specification's answer.) -/
theorem ok_result_has_n_slots (k : Kernel) (minCount : Nat) (userFill : Option Val) (codes : List Int)
    (vals : List Val) (n : Nat) (r : Except String (List Val)) (vs : List Val)
    (hr : r = (match Spec.reduce k minCount userFill codes vals n with
          | some vs => .ok vs
          | none => .error "ValueError"))
    (hok : r = .ok vs) : vs.length = n := by
  subst hr
  cases h : Spec.reduce k minCount userFill codes vals n with
  | none => rw [h] at hok; cases hok
  | some vs' =>
    rw [h] at hok
    cases hok
    exact SpecL.reduce_length k minCount userFill codes vals n vs h

/-! ## §3 the returned labels -/

/-- **The labels `groupby_reduce` returns are the requested ones, in the requested order** – for every plan, every
    blueprint, every input: when `expected_groups = ex` is given (and labels are known when the graph is built) the
    entry point `run` returns `ex` as given for `sort=False`, and `ex` sorted ascending for `sort=True`. -/
theorem returned_labels_are_requested (rows : List InitRow) (rq : Request) (plan : Plan) (chunks : List Nat)
    (labels : List Key) (vals : List Val) (gs : List Key) (vs : List Val) (ex : List Rat)
    (hknown : rq.known = true) (hex : rq.expected = some ex)
    (h : run rows rq plan chunks labels vals = .ok gs vs) :
    gs = (if rq.sort then ex.mergeSort (fun a b => decide (a ≤ b)) else ex).map some := by
  rw [SpecL.run_groups rows rq plan chunks labels vals gs vs hknown h, hex]
  simp [factorizeLabels]

/-- for a duplicate-free `ex` and `sort=True` these are strictly ascending and a rearrangement of `ex` (C16) -/
theorem sorted_requested_labels (ex : List Rat) (hnd : ex.Nodup) :
    (ex.mergeSort fun a b => decide (a ≤ b)).Pairwise (· < ·) ∧ (ex.mergeSort fun a b => decide (a ≤ b)).Perm ex :=
  ⟨C16.sorted_expected_strictAsc ex hnd, List.mergeSort_perm ex _⟩

/-- every element is coded with the position of its own label among the returned labels, and `-1` exactly when its
    label is missing (NaN) or not among them – so "unrequested and missing labels are dropped" (§1) -/
theorem codes_point_at_own_label (labels : List Key) (expected : Option (List Rat)) (sort : Bool) (i : Nat)
    (hi : i < labels.length) :
    ∃ hc : i < (factorizeLabels labels expected sort).2.length,
      (∀ j : Nat, (factorizeLabels labels expected sort).2[i] = (j : Int) →
        (factorizeLabels labels expected sort).1[j]? = labels[i] ∧ labels[i] ≠ none)
      ∧ ((factorizeLabels labels expected sort).2[i] = -1 ↔
          (labels[i] = none ∨ ∃ r, labels[i] = some r ∧ r ∉ (factorizeLabels labels expected sort).1)) :=
  C16.factorizeLabels_decode labels expected sort i hi

/-! ## §4 the implicit `min_count` rule (`effective`, `FloxModel/Entry.lean`)

  `groupby_reduce`: with `min_count=None`, a `fill_value` AND `expected_groups` imply `min_count = 1` (so that absent
  labels are masked); an explicit `min_count` is taken as is; `nansum` / `nanprod` with a positive `min_count` and no
  fill get NaN as fill. -/

/-- a request template: `sum` on float64, numpy_groupies, sorted, labels known -/
private def rq0 : Request :=
  { func := "sum", dkind := "f8", fill := none, minCount := none, ddof := 0, eng := .npg, sort := true,
    expected := none, known := true, splitEvery := 2, floatData := true }

/-- fill + expected groups, no `min_count` ⇒ `min_count = 1`, fill kept verbatim (here 0) -/
example : effective { rq0 with fill := some Val.zero, expected := some [0, 1, 2] } = (1, some Val.zero) := by
  decide +kernel
/-- fill without expected groups ⇒ `min_count = 0` -/
example : effective { rq0 with fill := some Val.zero } = (0, some Val.zero) := by decide +kernel
/-- expected groups without fill ⇒ `min_count = 0`, no fill -/
example : effective { rq0 with expected := some [0, 1, 2] } = (0, none) := by decide +kernel
/-- an explicit `min_count` (also 0) is taken as is -/
example : effective { rq0 with fill := some (Val.fin (-5)), expected := some [0, 1], minCount := some 0 }
    = (0, some (Val.fin (-5))) := by decide +kernel
example : effective { rq0 with fill := some (Val.fin (-5)), expected := some [0, 1], minCount := some 3 }
    = (3, some (Val.fin (-5))) := by decide +kernel
/-- `nansum` with `min_count > 0` and no fill: the fill becomes NaN; with a fill it is kept -/
example : effective { rq0 with func := "nansum", minCount := some 2 } = (2, some Val.nan) := by decide +kernel
example : effective { rq0 with func := "nansum", minCount := some 2, fill := some Val.zero } = (2, some Val.zero) := by
  decide +kernel
example : effective { rq0 with func := "nanmax", minCount := some 2 } = (2, none) := by decide +kernel

/-! ## §5 the open finding F9 (why `H_absent` is a hypothesis)

  `HAbsent R ms` is `R.minCount ≥ 1 ∨ ms ≠ []`.  With `min_count = 0` in force (explicitly, or because no
  `fill_value` / no `expected_groups` were given) a requested label that does not occur is NOT filled with the user's
  fill by the eager path (it keeps the NumPy kernel's fill) nor by `reindex=True` map-reduce (it keeps the finalized
  intermediate fill); `reindex=False` map-reduce and blockwise do fill it.  The property's quantifier supplies a fill
  whenever a label may be absent; with the implicit rule of §4 that gives `min_count = 1` and `H_absent` holds – the
  gap is an EXPLICIT `min_count=0` (or a blueprint whose mask is off) together with an absent label. -/

/-- `sum`, no `min_count`, no fill, label 1 requested but absent: eager returns the NumPy fill NaN, the specification
    demands a fill (`ValueError`) -/
theorem H_absent_counterexample :
    E2E.Rsum.shape? = some (.simple .sum .sum Val.zero) ∧ HAllNaN E2E.Rsum (.simple .sum .sum Val.zero)
    ∧ HMinMax E2E.Rsum (.simple .sum .sum Val.zero) ∧ ¬ HAbsent E2E.Rsum (members 1 [0] [Val.fin 1])
    ∧ runKnown (E2E.mkCall E2E.Rsum .npg 2 2) .eager true [1] (codeKeys [0]) [Val.fin 1] = .ok [Val.fin 1, Val.nan]
    ∧ specResult .sum E2E.Rsum [0] [Val.fin 1] 2 = .error "ValueError" :=
  E2E.H_absent_counterexample

/-- even with a user fill 7 the eager result for the absent label is the NumPy fill, not the user's -/
theorem H_absent_counterexample_fill :
    runKnown (E2E.mkCall { E2E.Rsum with userFill := some (Val.fin 7) } .npg 2 2) .eager true [1] (codeKeys [0])
        [Val.fin 1] = .ok [Val.fin 1, Val.nan]
    ∧ specResult .sum { E2E.Rsum with userFill := some (Val.fin 7) } [0] [Val.fin 1] 2
        = .ok [Val.fin 1, Val.fin 7] :=
  E2E.H_absent_counterexample_fill

/-- the absent label gets the intermediate fill 0 from `reindex=True` map-reduce and NaN from the eager path -/
theorem H_absent_counterexample_mapreduce :
    runKnown (E2E.mkCall E2E.Rsum .npg 2 2) (.mapreduce true) true [1] (codeKeys [0]) [Val.fin 1]
        = .ok [Val.fin 1, Val.fin 0]
    ∧ runKnown (E2E.mkCall E2E.Rsum .npg 2 2) .eager true [1] (codeKeys [0]) [Val.fin 1]
        = .ok [Val.fin 1, Val.nan] :=
  E2E.H_absent_counterexample_mapreduce

/-! ### non-vacuity -/

/-- the specification on data with a dropped element (code -1), an absent requested label (1), an all-NaN label (3):
    `nanmean`, `min_count=1`, fill 0 – the falsy fill arrives verbatim in slots 1 and 3 -/
example : Spec.reduce .nanmean 1 (some Val.zero) E2E.codes8 E2E.vals8 4
    = some [Val.fin (3/2), Val.zero, Val.fin 4, Val.zero] := by decide +kernel

/-- `min_count = 2`: label 2 has two valid members (kept), labels 0.. with fewer are filled -/
example : Spec.reduce .nansum 2 (some (Val.fin (-9))) [0, 1, 1, 2, 2] [.fin 1, .fin 2, .nan, .fin 3, .fin 4] 4
    = some [Val.fin (-9), Val.fin (-9), Val.fin 7, Val.fin (-9)] := by decide +kernel

/-- no fill and an absent label: the specification refuses; `spec_refuses_iff` gives the witness -/
example : Spec.reduce .sum 0 none [0] [Val.fin 1] 2 = none := by decide +kernel

/-- `spec_dropped_elements_ignored` on `codes8` (one element coded -1): the filtered input is really shorter -/
example : ((E2E.codes8.zip E2E.vals8).filter fun p => decide (0 ≤ p.1 ∧ p.1 < ((4 : Nat) : Int))).length = 7 := by
  decide +kernel

open E2E in
/-- all five plan theorems have satisfiable hypotheses; here `reindex=False` with the falsy fill 0 on `codes8` -/
example : runKnown (mkCall { Rnanmean with userFill := some Val.zero } .npg 4 2) (.mapreduce false) true [2, 1, 3, 2]
      (codeKeys codes8) vals8
    = .ok [Val.fin (3/2), Val.zero, Val.fin 4, Val.zero] :=
  (mapreduce_sparse_returns_spec { Rnanmean with userFill := some Val.zero } (.mean true)
    (mkCall { Rnanmean with userFill := some Val.zero } .npg 4 2) 4 true [2, 1, 3, 2] codes8 vals8
    rfl rfl rfl rfl (by decide +kernel) codes8_ok rfl (by decide +kernel) (by decide +kernel) rfl
    (by decide +kernel)).trans (by decide +kernel)

end Flox.C05
