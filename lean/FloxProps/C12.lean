/-
  C12 — labels found at compute time give the same label → value mapping as the eager computation.
  (The laziness half of C12 – graph construction never computes a chunk – is observed by the harness; it is not a
  statement about values and has no Lean counterpart.)

  When the labels are themselves chunked and no `expected_groups` are given, flox cannot factorise them when the graph is
  built: it runs map-reduce without reindexing, merges blocks with `_grouped_combine` (which discovers the union of
  the blocks' labels at every node of the tree) and finalizes without expected groups.  The model of that path is
  `runUnknown c chunks keys vals : Except String (List Key × List Val)` – `keys` are the RAW labels (`none` = NaN /
  missing), the result is the pair (discovered labels, values).

    §1  the result is (the labels eager factorisation finds, `Spec.reduce` over the codes eager factorisation
        assigns) – i.e. exactly what C01 says the eager computation returns, for every chunking and `split_every`
    §2  the same, label by label; what the discovered labels are (duplicate-free, exactly the non-missing labels,
        strictly ascending for `sort=True`)
    §3  independence of the chunking and of the tree
    §4  every label missing: the result is empty (the repaired behaviour; `_aggregate` drops the `NaN` placeholder
        group) – except that with `min_count > 0` and no fill value the count mask still raises first (a remaining
        finding, `H_allmissing`)

  Vocabulary:
    `presentKeys keys`            the non-missing labels, with repetitions, in array order
    `Grp.foundOf sort keys`       the distinct non-missing labels: ascending (`sort`) or in order of first appearance
    `Grp.membersK κ keys vals`    the values whose label is `κ`, in array order
    `factorizeLabels keys none sort`
                                  what the eager path does to in-memory labels (`pd.factorize`): (labels, codes)
    `specSlot R k ms`             `Spec.slot k R.minCount R.userFill ms` with `none` read as `ValueError`
    `Grp.specUnknown k R sort keys vals`
                                  (found labels, per found label the `specSlot` of its members), `ValueError` if one
                                  of the slots needs a fill that was not given
    `HMinMax R s`                 nanmax / nanmin: the count mask is on (as the registry forces)
    `Grp.HAllMissing R keys`      `presentKeys keys = [] → R.minCount > 0 → R.userFill ≠ none`: if every label is
                                  missing and the count mask is on, a fill value was given

  Property theorems only (helper lemmas live in FloxProofs).
-/
import FloxProofs.Grouped
import FloxProofs.GroupedExamples
import FloxProofs.UnknownKnown

namespace Flox.C12

/-! ## §1 same mapping as the eager computation -/

/-- **Labels found at compute time: same labels, same values as eager.**  For a blueprint with a `Shape`
    (simple-combine reductions on floating data), any chunking into at least one block covering the array, any
    `split_every`: `runUnknown` returns the labels that eager factorisation of the whole label array finds
    (`(factorizeLabels keys none c.sort).1`) and, for them, `Spec.reduce` over the codes eager factorisation assigns –
    which by C01 is what the eager computation returns.

    This includes the case that every label is missing: both sides are then `.ok ([], [])` (§4).

    Narrower than the property: `H_allmissing` – every label missing together with `min_count > 0` and no fill value
    is excluded (necessary, and a remaining finding: §4); `H_minmax` (as everywhere for `nanmax` / `nanmin`,
    `Grp.GEx.H_minmax_grouped_counterexample`). -/
theorem unknown_labels_same_mapping (R : Resolved) (s : Shape) (c : Call) (chunks : List Nat) (keys : List Key)
    (vals : List Val)
    (hR : c.R = R) (heng : c.eng = .npg) (hshape : R.shape? = some s)
    (hlen : keys.length = vals.length)
    (H_minmax : HMinMax R s) (H_allmissing : Grp.HAllMissing R keys)
    (hchunks : chunks ≠ []) (hsum : chunks.sum = keys.length) :
    runUnknown c chunks keys vals
      = (match Spec.reduce s.kernel R.minCount R.userFill (factorizeLabels keys none c.sort).2 vals
            (factorizeLabels keys none c.sort).1.length with
          | some vs => .ok ((factorizeLabels keys none c.sort).1.map some, vs)
          | none => .error "ValueError") :=
  Grp.runUnknown_eq_reduce_factorized R s c chunks keys vals hR heng hshape hlen H_minmax H_allmissing hchunks hsum

/-! ## §2 label by label -/

/-- **`runUnknown` = (found labels, per label the specification slot of the elements carrying it)** -/
theorem runUnknown_eq_spec (R : Resolved) (s : Shape) (c : Call) (chunks : List Nat) (keys : List Key)
    (vals : List Val)
    (hR : c.R = R) (heng : c.eng = .npg) (hshape : R.shape? = some s)
    (hlen : keys.length = vals.length)
    (H_minmax : HMinMax R s) (H_allmissing : Grp.HAllMissing R keys)
    (hchunks : chunks ≠ []) (hsum : chunks.sum = keys.length) :
    runUnknown c chunks keys vals = Grp.specUnknown s.kernel R c.sort keys vals :=
  Grp.runUnknown_eq_spec R s c chunks keys vals hR heng hshape hlen H_minmax H_allmissing hchunks hsum

/-- what `Grp.specUnknown` is (its definition, as a theorem a reader can check) -/
theorem specUnknown_def (k : Kernel) (R : Resolved) (sort : Bool) (keys : List Key) (vals : List Val) :
    Grp.specUnknown k R sort keys vals
      = (match (Grp.foundOf sort keys).mapM (fun r => specSlot R k (Grp.membersK (some r) keys vals)) with
          | .error e => .error e
          | .ok vs => .ok ((Grp.foundOf sort keys).map some, vs)) := rfl

/-- with `sort = true` the discovered labels are strictly ascending … -/
theorem foundOf_sorted (keys : List Key) : (Grp.foundOf true keys).Pairwise (· < ·) :=
  Grp.foundOf_sorted keys

/-- … and in both modes they are duplicate-free and exactly the non-missing labels of the data: no label is lost,
    none is invented, none is repeated -/
theorem foundOf_spec (sort : Bool) (keys : List Key) :
    (Grp.foundOf sort keys).Nodup ∧ ∀ r, r ∈ Grp.foundOf sort keys ↔ some r ∈ keys :=
  Grp.foundOf_spec sort keys

/-- they are the labels eager factorisation (`pd.factorize(sort=sort)` on the in-memory labels) finds, and the eager
    codes point at them -/
theorem foundOf_eq_eager_factorize (keys : List Key) (sort : Bool) :
    factorizeLabels keys none sort = (Grp.foundOf sort keys, keys.map (Grp.codeOf (Grp.foundOf sort keys))) :=
  Grp.factorizeLabels_none keys sort

/-! ## §3 chunking and tree are irrelevant -/

/-- two calls that differ in the chunking and in `split_every` (same `sort`) discover the same labels and attach the
    same values -/
theorem runUnknown_chunking_tree_irrelevant (R : Resolved) (s : Shape) (c₁ c₂ : Call) (chunks₁ chunks₂ : List Nat)
    (keys : List Key) (vals : List Val)
    (hR₁ : c₁.R = R) (heng₁ : c₁.eng = .npg) (hR₂ : c₂.R = R) (heng₂ : c₂.eng = .npg) (hsort : c₁.sort = c₂.sort)
    (hshape : R.shape? = some s)
    (hlen : keys.length = vals.length)
    (H_minmax : HMinMax R s) (H_allmissing : Grp.HAllMissing R keys)
    (hchunks₁ : chunks₁ ≠ []) (hsum₁ : chunks₁.sum = keys.length)
    (hchunks₂ : chunks₂ ≠ []) (hsum₂ : chunks₂.sum = keys.length) :
    runUnknown c₁ chunks₁ keys vals = runUnknown c₂ chunks₂ keys vals :=
  Grp.runUnknown_chunking_tree_irrelevant R s c₁ c₂ chunks₁ chunks₂ keys vals hR₁ heng₁ hR₂ heng₂ hsort hshape hlen
    H_minmax H_allmissing hchunks₁ hsum₁ hchunks₂ hsum₂

/-! ## §4 every label missing -/

/-- **every label missing: no group at all.**  `_aggregate` drops the `NaN` placeholder group that the all-missing
    blocks carry through the tree, so the result is empty, exactly like the eager computation
    (`factorizeLabels keys none sort` finds no label).  `hfill`: if the count mask is on, a fill value was given. -/
theorem runUnknown_all_missing (R : Resolved) (s : Shape) (c : Call) (chunks : List Nat) (keys : List Key)
    (vals : List Val)
    (hR : c.R = R) (heng : c.eng = .npg) (hshape : R.shape? = some s)
    (hlen : keys.length = vals.length) (hmiss : presentKeys keys = [])
    (H_minmax : HMinMax R s) (hfill : R.minCount > 0 → R.userFill ≠ none)
    (hchunks : chunks ≠ []) (hsum : chunks.sum = keys.length) :
    runUnknown c chunks keys vals = .ok ([], []) :=
  Grp.runUnknown_all_missing R s c chunks keys vals hR heng hshape hlen hmiss H_minmax hfill hchunks hsum

/-- **every label missing, `min_count > 0`, no fill value: `ValueError` – a remaining finding.**  `_finalize_results`
    applies the count mask to the placeholder group (count 0) *before* that group is dropped, so it raises
    `ValueError("Filling is required but fill_value is None.")`, while the eager computation returns the empty
    result.  This is exactly the case `H_allmissing` excludes. -/
theorem runUnknown_all_missing_error (R : Resolved) (s : Shape) (c : Call) (chunks : List Nat) (keys : List Key)
    (vals : List Val)
    (hR : c.R = R) (heng : c.eng = .npg) (hshape : R.shape? = some s)
    (hlen : keys.length = vals.length) (hmiss : presentKeys keys = [])
    (hmc : R.minCount > 0) (hfill : R.userFill = none)
    (hchunks : chunks ≠ []) (hsum : chunks.sum = keys.length) :
    runUnknown c chunks keys vals = .error "ValueError" :=
  Grp.runUnknown_all_missing_error R s c chunks keys vals hR heng hshape hlen hmiss hmc hfill hchunks hsum

/-- the repaired behaviour on a concrete call (formerly `hpres_counterexample`: the result used to be
    `([NaN], [-1])`): `nanmean`, `min_count=1`, `fill_value=-1`, labels `[NaN, NaN, NaN]` in two blocks -/
theorem all_missing_example :
    runUnknown { E2E.mkCall E2E.Rnanmean .npg 0 2 with knownLabels := false } [2, 1] [none, none, none]
        [.fin 1, .fin 2, .nan]
      = Grp.specUnknown .nanmean E2E.Rnanmean true [none, none, none] [.fin 1, .fin 2, .nan]
    ∧ Grp.specUnknown .nanmean E2E.Rnanmean true [none, none, none] [.fin 1, .fin 2, .nan] = .ok ([], []) :=
  Grp.GEx.all_missing_example

/-- **`H_allmissing` is necessary**: the same call without a fill value raises, the specification is empty -/
theorem H_allmissing_counterexample :
    ¬ Grp.HAllMissing { E2E.Rnanmean with userFill := none } [none, none, none]
    ∧ runUnknown { E2E.mkCall { E2E.Rnanmean with userFill := none } .npg 0 2 with knownLabels := false } [2, 1]
        [none, none, none] [.fin 1, .fin 2, .nan] = .error "ValueError"
    ∧ Grp.specUnknown .nanmean { E2E.Rnanmean with userFill := none } true [none, none, none]
        [.fin 1, .fin 2, .nan] = .ok ([], []) :=
  Grp.GEx.H_allmissing_counterexample

/-! ### non-vacuity -/

open E2E Grp.GEx in
/-- labels `5, NaN, 2, 5, 2, 2, 5, 3` in 4 blocks, binary tree; label 3 is all-NaN (masked, fill -1), one element has a
    missing label: the theorem applies and the mapping is a real one -/
example :
    runUnknown { mkCall Rnanmean .npg 0 2 with knownLabels := false } [2, 1, 3, 2] keys8 vals8
      = (match Spec.reduce .nanmean Rnanmean.minCount Rnanmean.userFill (factorizeLabels keys8 none true).2 vals8
            (factorizeLabels keys8 none true).1.length with
          | some vs => .ok ((factorizeLabels keys8 none true).1.map some, vs)
          | none => .error "ValueError")
    ∧ factorizeLabels keys8 none true = ([2, 3, 5], [2, -1, 0, 2, 0, 0, 2, 1])
    ∧ runUnknown { mkCall Rnanmean .npg 0 2 with knownLabels := false } [2, 1, 3, 2] keys8 vals8
      = .ok ([some 2, some 3, some 5], [Val.fin 4, Val.fin (-1), Val.fin (3/2)]) :=
  ⟨unknown_labels_same_mapping Rnanmean (.mean true) _ [2, 1, 3, 2] keys8 vals8 rfl rfl (by decide +kernel) rfl
      (by decide +kernel) (by decide +kernel) (by decide) rfl,
    by decide +kernel,
    (runUnknown_eq_spec Rnanmean (.mean true) _ [2, 1, 3, 2] keys8 vals8 rfl rfl (by decide +kernel) rfl
      (by decide +kernel) (by decide +kernel) (by decide) rfl).trans (by decide +kernel)⟩

end Flox.C12
