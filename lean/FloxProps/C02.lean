/-
  C02 — chunked = eager = specification, for every strategy / reindex mode / chunking:

    §1  map-reduce, blocks reindexed to the expected groups (`reindex=True`), `_simple_combine`, any `split_every`
        (+ the tie to the live `_initialize_aggregation` table)
    §2  map-reduce, reindexing at combine time (`reindex=False`)
    §3  `method="cohorts"`, ANY sound cohort structure
    §4  `method="blockwise"` (when every label lies within one block)
    §5  map-reduce with `_grouped_combine` (the plan for `nanfirst` / `nanlast` on non-float data)
    §6  the hypotheses are necessary (counterexamples; several are defects of the modelled library)

  Property theorems only (helper lemmas live in FloxProofs).

  Vocabulary used in the statements (all defined in FloxProofs, all decidable on concrete data):
    `codeKeys codes`        the integer codes handed to the pipeline after factorisation (`-1` = dropped element)
    `CodesOK codes n`       every code lies in `-1 .. n-1`
    `specResult k R codes vals n`
                            `Spec.reduce k R.minCount R.userFill codes vals n`, with `none` read as `ValueError`
    `HAbsent R ms`          `R.minCount ≥ 1 ∨ ms ≠ []`   (an absent requested label is filled through the count mask only)
    `HAllNaN R s`           nanmax/nanmin/nanfirst/nanlast/nanmean/nanvar: `R.minCount ≥ 1 ∨ R.npFill = NaN`
    `HMinMax R s`           nanmax/nanmin: `R.minCount ≥ 1` (as the registry forces)
    `HDropped R n codes vals`
                            with a count mask and NO fill, the dropped elements (code `-1`) have `≥ min_count` valid
                            values, and an empty array requests at least one label
    `CohortsSound chunks codes n cs`, `HCohortFill c R n cs`   see §3
    `BW.EachLabelInOneBlock chunks codes`, `BW.HDropped`, `BW.HSomeLabel`   see §4
-/
import FloxProofs.EndToEnd
import FloxProofs.TableShape
import FloxProofs.EndToEndExamples
import FloxProofs.EndToEndSparse
import FloxProofs.EndToEndSparseExamples
import FloxProofs.Cohorts
import FloxProofs.CohortsExamples
import FloxProofs.Blockwise
import FloxProofs.BlockwiseFlox
import FloxProofs.BlockwiseExamples
import FloxProofs.Grouped
import FloxProofs.GroupedExamples

namespace Flox.C02

/-! ## §1 map-reduce with reindexing at the block stage (`reindex=True`) -/

/-- **Map-reduce = eager.**  For a resolved blueprint with a `Shape` (simple-combine reductions), the numpy_groupies
    engine, integer codes in `-1..n-1`, and ANY chunking `chunks` (non-empty, covering the array) and ANY
    `split_every`, the map-reduce plan with reindexing at the block stage returns exactly what the eager path
    returns (including the `ValueError` outcome).

    * `H_absent`: a requested label that does not occur gets the user's fill only through the count mask
      (otherwise eager gives the NumPy fill and map-reduce the finalized intermediate fills).
    * `H_allnan`: nanmax / nanmin / nanfirst / nanlast / nanmean / nanvar: NumPy fill NaN unless the mask is on.
    * `H_minmax`: nanmax / nanmin: the count mask is on (`min_count ≥ 1`, as the registry forces). -/
theorem mapreduce_dense_eq_eager (R : Resolved) (s : Shape) (c : Call) (n : Nat) (floatData : Bool)
    (chunks chunks' : List Nat) (codes : List Int) (vals : List Val)
    (hR : c.R = R) (heng : c.eng = .npg) (hn : c.ngroups = n) (hknown : c.knownLabels = true)
    (hshape : R.shape? = some s)
    (hcodes : ∀ c ∈ codes, -1 ≤ c ∧ c < (n : Int)) (hlen : codes.length = vals.length)
    (H_absent : ∀ g : Nat, g < n → R.minCount ≥ 1 ∨ members (Int.ofNat g) codes vals ≠ [])
    (H_allnan : s.needsNaNFill = true → R.minCount ≥ 1 ∨ R.npFill = Val.nan)
    (H_minmax : s.isNanMinMax = true → R.minCount ≥ 1)
    (hchunks : chunks ≠ []) (hsum : chunks.sum = codes.length)
    (hcombine : useGroupedCombine c floatData = false) :
    runKnown c (.mapreduce true) floatData chunks (codes.map fun (i : Int) => (some (i : Rat) : Key)) vals
      = runKnown c .eager floatData chunks' (codes.map fun (i : Int) => (some (i : Rat) : Key)) vals :=
  Flox.mapreduce_dense_eq_eager R s c n floatData chunks chunks' codes vals hR heng hn hknown hshape hcodes hlen
    H_absent H_allnan H_minmax hchunks hsum hcombine

/-- **Map-reduce = specification** (no condition on the NumPy fill) -/
theorem mapreduce_dense_eq_spec (R : Resolved) (s : Shape) (c : Call) (n : Nat) (floatData : Bool)
    (chunks : List Nat) (codes : List Int) (vals : List Val)
    (hR : c.R = R) (heng : c.eng = .npg) (hn : c.ngroups = n) (hknown : c.knownLabels = true)
    (hshape : R.shape? = some s)
    (hcodes : ∀ c ∈ codes, -1 ≤ c ∧ c < (n : Int)) (hlen : codes.length = vals.length)
    (H_absent : ∀ g : Nat, g < n → R.minCount ≥ 1 ∨ members (Int.ofNat g) codes vals ≠ [])
    (H_minmax : s.isNanMinMax = true → R.minCount ≥ 1)
    (hchunks : chunks ≠ []) (hsum : chunks.sum = codes.length)
    (hcombine : useGroupedCombine c floatData = false) :
    runKnown c (.mapreduce true) floatData chunks (codes.map fun (i : Int) => (some (i : Rat) : Key)) vals
      = (match Spec.reduce s.kernel R.minCount R.userFill codes vals n with
          | some vs => .ok vs
          | none => .error "ValueError") :=
  Flox.mapreduce_dense_eq_spec R s c n floatData chunks codes vals hR heng hn hknown hshape hcodes hlen H_absent
    H_minmax hchunks hsum hcombine

/-- **Chunking and tree shape are irrelevant**: two calls that differ only in chunking and `split_every`
    (and `sort`, `fillArg`) return the same result. -/
theorem mapreduce_dense_chunking_tree_irrelevant (R : Resolved) (s : Shape) (c₁ c₂ : Call) (n : Nat)
    (floatData : Bool) (chunks₁ chunks₂ : List Nat) (codes : List Int) (vals : List Val)
    (hR₁ : c₁.R = R) (heng₁ : c₁.eng = .npg) (hn₁ : c₁.ngroups = n) (hknown₁ : c₁.knownLabels = true)
    (hR₂ : c₂.R = R) (heng₂ : c₂.eng = .npg) (hn₂ : c₂.ngroups = n) (hknown₂ : c₂.knownLabels = true)
    (hshape : R.shape? = some s)
    (hcodes : ∀ c ∈ codes, -1 ≤ c ∧ c < (n : Int)) (hlen : codes.length = vals.length)
    (H_absent : ∀ g : Nat, g < n → R.minCount ≥ 1 ∨ members (Int.ofNat g) codes vals ≠ [])
    (H_minmax : s.isNanMinMax = true → R.minCount ≥ 1)
    (hchunks₁ : chunks₁ ≠ []) (hsum₁ : chunks₁.sum = codes.length)
    (hchunks₂ : chunks₂ ≠ []) (hsum₂ : chunks₂.sum = codes.length)
    (hcombine₁ : useGroupedCombine c₁ floatData = false) (hcombine₂ : useGroupedCombine c₂ floatData = false) :
    runKnown c₁ (.mapreduce true) floatData chunks₁ (codes.map fun (i : Int) => (some (i : Rat) : Key)) vals
      = runKnown c₂ (.mapreduce true) floatData chunks₂ (codes.map fun (i : Int) => (some (i : Rat) : Key)) vals :=
  Flox.mapreduce_dense_chunking_tree_irrelevant R s c₁ c₂ n floatData chunks₁ chunks₂ codes vals hR₁ heng₁ hn₁
    hknown₁ hR₂ heng₂ hn₂ hknown₂ hshape hcodes hlen H_absent H_minmax hchunks₁ hsum₁ hchunks₂ hsum₂ hcombine₁
    hcombine₂

/-- the same three statements hold with flox's own engine (`mapreduce_dense_eq_spec_flox` for every shape) -/
theorem mapreduce_dense_eq_spec_flox (R : Resolved) (s : Shape) (c : Call) (n : Nat) (floatData : Bool)
    (chunks : List Nat) (codes : List Int) (vals : List Val)
    (hR : c.R = R) (heng : c.eng = .flox) (hn : c.ngroups = n) (hknown : c.knownLabels = true)
    (hshape : R.shape? = some s)
    (hcodes : ∀ c ∈ codes, -1 ≤ c ∧ c < (n : Int)) (hlen : codes.length = vals.length)
    (H_absent : ∀ g : Nat, g < n → R.minCount ≥ 1 ∨ members (Int.ofNat g) codes vals ≠ [])
    (H_minmax : s.isNanMinMax = true → R.minCount ≥ 1)
    (hchunks : chunks ≠ []) (hsum : chunks.sum = codes.length)
    (hcombine : useGroupedCombine c floatData = false) :
    runKnown c (.mapreduce true) floatData chunks (codes.map fun (i : Int) => (some (i : Rat) : Key)) vals
      = (match Spec.reduce s.kernel R.minCount R.userFill codes vals n with
          | some vs => .ok vs
          | none => .error "ValueError") :=
  Flox.mapreduce_dense_eq_spec_flox R s c n floatData chunks codes vals hR heng hn hknown hshape hcodes hlen H_absent
    H_minmax hchunks hsum hcombine

/-- **Tie to the live table.**  Every `ok` row of `_initialize_aggregation` for a simple-combine reduction on
    float64 / float32 data resolves (for any user fill, any `min_count` of the row's positivity, any `ddof`) to a
    blueprint that has a `Shape` whose NumPy kernel is the one named by `func`, and satisfies `H_allnan`,
    `H_minmax` and `H_floxmean` (so only `H_absent` is left to the caller). -/
theorem generated_rows_have_shape :
    ∀ row ∈ Generated.initRows, row.ok = true → row.dkind ∈ ["f8", "f4"] →
      row.func ∈ ["sum", "nansum", "prod", "nanprod", "max", "nanmax", "min", "nanmin", "count", "mean", "nanmean",
        "var", "nanvar", "std", "nanstd", "nanfirst", "nanlast"] →
      ∀ (user : Option Val) (mc ddof : Nat), row.mcPos = decide (mc > 0) →
        ∃ R s, row.resolve user mc ddof = some R ∧ R.shape? = some s
          ∧ kernelWithDdof ddof row.func = some s.kernel
          ∧ (s.needsNaNFill = true → R.minCount ≥ 1 ∨ R.npFill = Val.nan)
          ∧ (s.isNanMinMax = true → R.minCount ≥ 1)
          ∧ (s.isMean = true → R.npFill = Val.nan)
          ∧ R.name = row.func ∧ R.ddof = ddof
          ∧ (mc > 0 → R.minCount = mc) ∧ (mc = 0 → R.minCount ≤ 1)
          ∧ (row.userFill = "user" → R.userFill = user) := by
  intro row hrow hok hdk hfunc user mc ddof hmc
  obtain ⟨R, s, hf⟩ := Flox.generated_rows_have_shape row hrow hok hdk hfunc user mc ddof hmc
  exact ⟨R, s, hf.resolve, hf.shape, hf.kernel, hf.allnan, hf.minmax, hf.floxmean, hf.name, hf.ddof, hf.minCount, hf.minCount0,
    hf.userFill⟩

/-! ### non-vacuity -/

open E2E in
/-- `nanmean(min_count=1, fill_value=-1)`, 4 blocks, binary tree: all hypotheses hold, the value is real -/
example :
    runKnown (mkCall Rnanmean .npg 4 2) (.mapreduce true) true [2, 1, 3, 2]
        (codes8.map fun (i : Int) => (some (i : Rat) : Key)) vals8
      = runKnown (mkCall Rnanmean .npg 4 2) .eager true [8] (codes8.map fun (i : Int) => (some (i : Rat) : Key)) vals8
    ∧ runKnown (mkCall Rnanmean .npg 4 2) (.mapreduce true) true [2, 1, 3, 2]
        (codes8.map fun (i : Int) => (some (i : Rat) : Key)) vals8
      = .ok [Val.fin (3/2), Val.fin (-1), Val.fin 4, Val.fin (-1)] :=
  ⟨mapreduce_dense_eq_eager Rnanmean (.mean true) (mkCall Rnanmean .npg 4 2) 4 true [2, 1, 3, 2] [8] codes8 vals8
      rfl rfl rfl rfl (by decide +kernel) (by decide +kernel) rfl (fun _ _ => Or.inl (by decide))
      (by decide +kernel) (by decide +kernel) (by decide) rfl (by decide +kernel),
    by decide +kernel⟩

open E2E in
/-- two chunkings / two trees / both engines, evaluated -/
example :
    runKnown (mkCall Rnanmean .npg 4 2) (.mapreduce true) true [2, 1, 3, 2]
        (codes8.map fun (i : Int) => (some (i : Rat) : Key)) vals8
      = runKnown (mkCall Rnanmean .npg 4 8) (.mapreduce true) true [1, 1, 1, 1, 1, 1, 1, 1]
        (codes8.map fun (i : Int) => (some (i : Rat) : Key)) vals8
    ∧ runKnown (mkCall Rnanmean .flox 4 3) (.mapreduce true) true [4, 4]
        (codes8.map fun (i : Int) => (some (i : Rat) : Key)) vals8
      = .ok [Val.fin (3/2), Val.fin (-1), Val.fin 4, Val.fin (-1)] := by decide +kernel

/-- the table theorem is not vacuous: the float64 `nanmax` row without `min_count` exists, is `ok`, and resolves to a
    blueprint whose `min_count` is forced to 1 -/
example : ∃ row ∈ Generated.initRows, row.ok = true ∧ row.dkind = "f8" ∧ row.func = "nanmax" ∧ row.mcPos = false
    ∧ row.minCount = "1" ∧ row.userFill = "nan" := by
  refine ⟨{ func := "nanmax", dkind := "f8", fillKind := "none", mcPos := false, ok := true,
            numpy := ["nanmax", "nanlen"], chunk := ["nanmax", "nanlen"], combine := ["nanmax", "sum"],
            simple := ["nanmax", "sum"], interFills := ["-inf", "0"], numpyFills := ["nan", "0"], finalFill := "nan",
            userFill := "nan", minCount := "1", finalize := "None", finalDtype := "float64",
            interDtypes := ["float64", "int64"], numpyDtypes := ["float64", "int64"], isArg := false }, ?_, ?_⟩
  · decide +kernel
  · decide +kernel

/-- necessity of the hypotheses: `E2E.H_absent_counterexample_mapreduce`, `E2E.H_allnan_counterexample`,
    `E2E.H_minmax_counterexample`, `E2E.chunks_ne_nil_counterexample`, `E2E.chunks_sum_counterexample` -/
example :
    runKnown (E2E.mkCall E2E.Rnanmax0 .npg 1 2) (.mapreduce true) true [1] ([0].map fun (i : Int) => (some (i : Rat) : Key))
        [Val.nan]
      ≠ runKnown (E2E.mkCall E2E.Rnanmax0 .npg 1 2) .eager true [1] ([0].map fun (i : Int) => (some (i : Rat) : Key))
        [Val.nan] := by decide +kernel

/-! ## §2 map-reduce with reindexing at combine time (`reindex=False`) -/

/-- **`reindex=False` map-reduce = specification.**  Blocks carry only the groups they contain (the dropped code `-1`
    included), every `_simple_combine` reindexes its inputs to the union of their groups with the intermediate fills,
    `_finalize_results` reindexes to the requested labels with the user fill.  For every chunking (empty blocks, no
    block at all included) and every `split_every` the result is `Spec.reduce` (`ValueError` where it is `none`).

    Compared with §1, `H_absent` is NOT needed (an absent requested label gets the user's fill – or raises when there
    is none – exactly as the specification says).  Narrower than the property:
    * `H_dropped`: with `min_count ≥ 1` and `fill_value=None`, flox raises as soon as the group `-1` of the DROPPED
      elements has fewer than `min_count` valid values although no requested label needs a fill – a defect of the
      library, see `H_dropped_counterexample`.
    * `H_minmax` as in §1 (`H_minmax_counterexample_sparse`). -/
theorem mapreduce_sparse_eq_spec (R : Resolved) (s : Shape) (c : Call) (n : Nat) (floatData : Bool)
    (chunks : List Nat) (codes : List Int) (vals : List Val)
    (hR : c.R = R) (heng : c.eng = .npg) (hn : c.ngroups = n) (hknown : c.knownLabels = true)
    (hshape : R.shape? = some s) (hcodes : CodesOK codes n) (hlen : codes.length = vals.length)
    (H_dropped : HDropped R n codes vals) (H_minmax : HMinMax R s)
    (hsum : chunks.sum = codes.length)
    (hcombine : useGroupedCombine c floatData = false) :
    runKnown c (.mapreduce false) floatData chunks (codeKeys codes) vals = specResult s.kernel R codes vals n :=
  Flox.mapreduce_sparse_eq_spec R s c n floatData chunks codes vals hR heng hn hknown hshape hcodes hlen H_dropped
    H_minmax hsum hcombine

/-- the same with flox's own engine -/
theorem mapreduce_sparse_eq_spec_flox (R : Resolved) (s : Shape) (c : Call) (n : Nat) (floatData : Bool)
    (chunks : List Nat) (codes : List Int) (vals : List Val)
    (hR : c.R = R) (heng : c.eng = .flox) (hn : c.ngroups = n) (hknown : c.knownLabels = true)
    (hshape : R.shape? = some s) (hcodes : CodesOK codes n) (hlen : codes.length = vals.length)
    (H_dropped : HDropped R n codes vals) (H_minmax : HMinMax R s)
    (hsum : chunks.sum = codes.length)
    (hcombine : useGroupedCombine c floatData = false) :
    runKnown c (.mapreduce false) floatData chunks (codeKeys codes) vals = specResult s.kernel R codes vals n :=
  Flox.mapreduce_sparse_eq_spec_flox R s c n floatData chunks codes vals hR heng hn hknown hshape hcodes hlen
    H_dropped H_minmax hsum hcombine

/-- **`reindex=False` map-reduce = eager** (`chunks'` of the eager call is ignored by the model).  The eager side needs
    `H_absent` and `H_allnan` (see C01). -/
theorem mapreduce_sparse_eq_eager (R : Resolved) (s : Shape) (c : Call) (n : Nat) (floatData : Bool)
    (chunks chunks' : List Nat) (codes : List Int) (vals : List Val)
    (hR : c.R = R) (heng : c.eng = .npg) (hn : c.ngroups = n) (hknown : c.knownLabels = true)
    (hshape : R.shape? = some s) (hcodes : CodesOK codes n) (hlen : codes.length = vals.length)
    (H_absent : ∀ g : Nat, g < n → HAbsent R (members (Int.ofNat g) codes vals))
    (H_allnan : HAllNaN R s) (H_dropped : HDropped R n codes vals) (H_minmax : HMinMax R s)
    (hsum : chunks.sum = codes.length)
    (hcombine : useGroupedCombine c floatData = false) :
    runKnown c (.mapreduce false) floatData chunks (codeKeys codes) vals
      = runKnown c .eager floatData chunks' (codeKeys codes) vals :=
  Flox.mapreduce_sparse_eq_eager R s c n floatData chunks chunks' codes vals hR heng hn hknown hshape hcodes hlen
    H_absent H_allnan H_dropped H_minmax hsum hcombine

/-- **The reindex mode is irrelevant**: `reindex=False` and `reindex=True` map-reduce (possibly with different
    chunkings, `split_every`, `sort`) return the same result. -/
theorem mapreduce_sparse_eq_dense (R : Resolved) (s : Shape) (c c' : Call) (n : Nat) (floatData : Bool)
    (chunks chunks' : List Nat) (codes : List Int) (vals : List Val)
    (hR : c.R = R) (heng : c.eng = .npg) (hn : c.ngroups = n) (hknown : c.knownLabels = true)
    (hR' : c'.R = R) (heng' : c'.eng = .npg) (hn' : c'.ngroups = n) (hknown' : c'.knownLabels = true)
    (hshape : R.shape? = some s) (hcodes : CodesOK codes n) (hlen : codes.length = vals.length)
    (H_absent : ∀ g : Nat, g < n → HAbsent R (members (Int.ofNat g) codes vals))
    (H_dropped : HDropped R n codes vals) (H_minmax : HMinMax R s)
    (hsum : chunks.sum = codes.length)
    (hchunks' : chunks' ≠ []) (hsum' : chunks'.sum = codes.length)
    (hcombine : useGroupedCombine c floatData = false) (hcombine' : useGroupedCombine c' floatData = false) :
    runKnown c (.mapreduce false) floatData chunks (codeKeys codes) vals
      = runKnown c' (.mapreduce true) floatData chunks' (codeKeys codes) vals :=
  Flox.mapreduce_sparse_eq_dense R s c c' n floatData chunks chunks' codes vals hR heng hn hknown hR' heng' hn'
    hknown' hshape hcodes hlen H_absent H_dropped H_minmax hsum hchunks' hsum' hcombine hcombine'

/-! ## §3 `method="cohorts"` -/

/-- **Cohorts = specification, for every SOUND cohort structure.**  `cs` lists, per cohort, the block indices and the
    labels.  `CohortsSound chunks codes n cs` says: (i) cohort labels are requested labels `0..n-1`; (ii) every
    requested label that occurs is in some cohort; every cohort has a block; (iii) block indices are valid and a
    cohort's block list contains EVERY block holding a member of one of its labels; (iv) block lists are strictly
    ascending.  Nothing else is assumed about how `find_group_cohorts` built `cs` (labels may repeat across cohorts,
    cohorts may share blocks, any dict order).  Each of (i)–(iv) is necessary: `E2E.labels_ok_counterexample`,
    `E2E.covered_counterexample`, `E2E.blocks_ne_counterexample`, `E2E.blocks_cover_counterexample`,
    `E2E.blocks_asc_counterexample_dup`, `E2E.blocks_asc_counterexample_order`.

    Narrower than the property:
    * `H_absent` for cohort labels only (a cohort label without members and without count mask keeps the finalized
      intermediate fill: `E2E.H_absent_counterexample_cohorts`);
    * `H_fill = HCohortFill c R n cs`: requested labels that are in NO cohort are filled by the final reindex of
      `groupby_reduce` with its `fill_value` ARGUMENT `c.fillArg`, not with the aggregation's fill `R.userFill`; the
      two must agree if such a label exists, and a fill must exist if no cohort has a label.  This is a
      method-dependent behaviour of the library: `H_cohortfill_counterexample`. -/
theorem cohorts_eq_spec (R : Resolved) (s : Shape) (c : Call) (n : Nat) (floatData : Bool)
    (chunks : List Nat) (codes : List Int) (vals : List Val) (cs : List (List Nat × List Rat))
    (hR : c.R = R) (heng : c.eng = .npg) (hn : c.ngroups = n) (hknown : c.knownLabels = true)
    (hshape : R.shape? = some s) (hlen : codes.length = vals.length)
    (hsound : CohortsSound chunks codes n cs)
    (H_absent : ∀ co ∈ cs, ∀ g : Nat, ((g : Nat) : Rat) ∈ co.2 → HAbsent R (members (Int.ofNat g) codes vals))
    (H_minmax : HMinMax R s)
    (H_fill : HCohortFill c R n cs)
    (hsum : chunks.sum = codes.length)
    (hcombine : useGroupedCombine c floatData = false) :
    runKnown c (.cohorts cs) floatData chunks (codeKeys codes) vals = specResult s.kernel R codes vals n :=
  Flox.cohorts_eq_spec R s c n floatData chunks codes vals cs hR heng hn hknown hshape hlen hsound H_absent H_minmax
    H_fill hsum hcombine

/-- the same with flox's own engine -/
theorem cohorts_eq_spec_flox (R : Resolved) (s : Shape) (c : Call) (n : Nat) (floatData : Bool)
    (chunks : List Nat) (codes : List Int) (vals : List Val) (cs : List (List Nat × List Rat))
    (hR : c.R = R) (heng : c.eng = .flox) (hn : c.ngroups = n) (hknown : c.knownLabels = true)
    (hshape : R.shape? = some s) (hlen : codes.length = vals.length)
    (hsound : CohortsSound chunks codes n cs)
    (H_absent : ∀ co ∈ cs, ∀ g : Nat, ((g : Nat) : Rat) ∈ co.2 → HAbsent R (members (Int.ofNat g) codes vals))
    (H_minmax : HMinMax R s)
    (H_fill : HCohortFill c R n cs)
    (hsum : chunks.sum = codes.length)
    (hcombine : useGroupedCombine c floatData = false) :
    runKnown c (.cohorts cs) floatData chunks (codeKeys codes) vals = specResult s.kernel R codes vals n :=
  Flox.cohorts_eq_spec_flox R s c n floatData chunks codes vals cs hR heng hn hknown hshape hlen hsound H_absent
    H_minmax H_fill hsum hcombine

/-- **Cohorts = eager.** -/
theorem cohorts_eq_eager (R : Resolved) (s : Shape) (c : Call) (n : Nat) (floatData : Bool)
    (chunks chunks' : List Nat) (codes : List Int) (vals : List Val) (cs : List (List Nat × List Rat))
    (hR : c.R = R) (heng : c.eng = .npg) (hn : c.ngroups = n) (hknown : c.knownLabels = true)
    (hshape : R.shape? = some s) (hcodes : CodesOK codes n) (hlen : codes.length = vals.length)
    (hsound : CohortsSound chunks codes n cs)
    (H_absent : ∀ g : Nat, g < n → HAbsent R (members (Int.ofNat g) codes vals))
    (H_allnan : HAllNaN R s) (H_minmax : HMinMax R s) (H_fill : HCohortFill c R n cs)
    (hsum : chunks.sum = codes.length)
    (hcombine : useGroupedCombine c floatData = false) :
    runKnown c (.cohorts cs) floatData chunks (codeKeys codes) vals
      = runKnown c .eager floatData chunks' (codeKeys codes) vals :=
  Flox.cohorts_eq_eager R s c n floatData chunks chunks' codes vals cs hR heng hn hknown hshape hcodes hlen hsound
    H_absent H_allnan H_minmax H_fill hsum hcombine

/-- **The cohort structure is irrelevant**: two calls that differ in the (sound) cohort structure, the chunking,
    `split_every` and `sort` return the same result. -/
theorem cohorts_structure_irrelevant (R : Resolved) (s : Shape) (c₁ c₂ : Call) (n : Nat) (floatData : Bool)
    (chunks₁ chunks₂ : List Nat) (codes : List Int) (vals : List Val) (cs₁ cs₂ : List (List Nat × List Rat))
    (hR₁ : c₁.R = R) (heng₁ : c₁.eng = .npg) (hn₁ : c₁.ngroups = n) (hknown₁ : c₁.knownLabels = true)
    (hR₂ : c₂.R = R) (heng₂ : c₂.eng = .npg) (hn₂ : c₂.ngroups = n) (hknown₂ : c₂.knownLabels = true)
    (hshape : R.shape? = some s) (hlen : codes.length = vals.length)
    (hsound₁ : CohortsSound chunks₁ codes n cs₁) (hsound₂ : CohortsSound chunks₂ codes n cs₂)
    (H_absent₁ : ∀ co ∈ cs₁, ∀ g : Nat, ((g : Nat) : Rat) ∈ co.2 → HAbsent R (members (Int.ofNat g) codes vals))
    (H_absent₂ : ∀ co ∈ cs₂, ∀ g : Nat, ((g : Nat) : Rat) ∈ co.2 → HAbsent R (members (Int.ofNat g) codes vals))
    (H_minmax : HMinMax R s)
    (H_fill₁ : HCohortFill c₁ R n cs₁) (H_fill₂ : HCohortFill c₂ R n cs₂)
    (hsum₁ : chunks₁.sum = codes.length) (hsum₂ : chunks₂.sum = codes.length)
    (hcombine₁ : useGroupedCombine c₁ floatData = false) (hcombine₂ : useGroupedCombine c₂ floatData = false) :
    runKnown c₁ (.cohorts cs₁) floatData chunks₁ (codeKeys codes) vals
      = runKnown c₂ (.cohorts cs₂) floatData chunks₂ (codeKeys codes) vals :=
  Flox.cohorts_structure_irrelevant R s c₁ c₂ n floatData chunks₁ chunks₂ codes vals cs₁ cs₂ hR₁ heng₁ hn₁ hknown₁
    hR₂ heng₂ hn₂ hknown₂ hshape hlen hsound₁ hsound₂ H_absent₁ H_absent₂ H_minmax H_fill₁ H_fill₂ hsum₁ hsum₂
    hcombine₁ hcombine₂

/-! ## §4 `method="blockwise"` -/

/-- **Blockwise = specification.**  `BW.EachLabelInOneBlock chunks codes` is the documented precondition of
    `method="blockwise"`: no label `≥ 0` occurs in two blocks of the chunking.  Then reducing every (non-empty) block
    on its own, concatenating, sorting by label when `sort=True`, dropping the repeated `-1` group and reindexing to
    the expected groups gives `Spec.reduce`; for `sort = true` and `sort = false`.

    Narrower than the property:
    * `hpos`: no empty block (`BWEx.empty_block_counterexample`: the model misaligns labels and values);
    * `hfill`: the `fill_value` argument equals the aggregation's fill (`BWEx.fillArg_counterexample`);
    * `H_allnan` as for the eager path (each block is reduced by the eager kernels);
    * `BW.HDropped R segs`: without a fill, the dropped elements of a block must not trip the count mask
      (`BWEx.H_dropped_counterexample`, same defect as in §2);
    * `BW.HSomeLabel R codes n`: without a fill and with a requested label, some element carries a label
      (`BWEx.H_somelabel_counterexample`: the reindex of an EMPTY result fills with NaN instead of raising).
    The precondition itself is necessary: `each_label_in_one_block_counterexample`. -/
theorem blockwise_eq_spec (R : Resolved) (s : Shape) (c : Call) (n : Nat) (floatData : Bool)
    (chunks : List Nat) (codes : List Int) (vals : List Val)
    (hR : c.R = R) (heng : c.eng = .npg) (hn : c.ngroups = n) (hknown : c.knownLabels = true)
    (hshape : R.shape? = some s) (hcodes : CodesOK codes n) (hlen : codes.length = vals.length)
    (hsum : chunks.sum = codes.length) (hpos : ∀ k ∈ chunks, 0 < k)
    (hone : BW.EachLabelInOneBlock chunks codes)
    (hfill : c.fillArg = R.userFill) (H_allnan : HAllNaN R s)
    (H_dropped : BW.HDropped R (segsOf chunks codes vals)) (H_somelabel : BW.HSomeLabel R codes n) :
    runKnown c (.blockwise false) floatData chunks (codeKeys codes) vals = specResult s.kernel R codes vals n :=
  BW.blockwise_eq_spec R s c n floatData chunks codes vals hR heng hn hknown hshape hcodes hlen hsum hpos hone hfill
    H_allnan H_dropped H_somelabel

/-- the same with flox's own engine (`HFloxMean R s`: for the `mean` shapes the NumPy fill must be NaN, as in
    `C01.eager_eq_spec_flox`) -/
theorem blockwise_eq_spec_flox (R : Resolved) (s : Shape) (c : Call) (n : Nat) (floatData : Bool)
    (chunks : List Nat) (codes : List Int) (vals : List Val)
    (hR : c.R = R) (heng : c.eng = .flox) (hn : c.ngroups = n) (hknown : c.knownLabels = true)
    (hshape : R.shape? = some s) (hmean : HFloxMean R s)
    (hcodes : CodesOK codes n) (hlen : codes.length = vals.length)
    (hsum : chunks.sum = codes.length) (hpos : ∀ k ∈ chunks, 0 < k)
    (hone : BW.EachLabelInOneBlock chunks codes)
    (hfill : c.fillArg = R.userFill) (H_allnan : HAllNaN R s)
    (H_dropped : BW.HDropped R (segsOf chunks codes vals)) (H_somelabel : BW.HSomeLabel R codes n) :
    runKnown c (.blockwise false) floatData chunks (codeKeys codes) vals = specResult s.kernel R codes vals n :=
  BW.blockwise_eq_spec_flox R s c n floatData chunks codes vals hR heng hn hknown hshape hmean hcodes hlen hsum hpos
    hone hfill H_allnan H_dropped H_somelabel

/-- **Blockwise = eager** -/
theorem blockwise_eq_eager (R : Resolved) (s : Shape) (c : Call) (n : Nat) (floatData : Bool)
    (chunks chunks' : List Nat) (codes : List Int) (vals : List Val)
    (hR : c.R = R) (heng : c.eng = .npg) (hn : c.ngroups = n) (hknown : c.knownLabels = true)
    (hshape : R.shape? = some s) (hcodes : CodesOK codes n) (hlen : codes.length = vals.length)
    (hsum : chunks.sum = codes.length) (hpos : ∀ k ∈ chunks, 0 < k)
    (hone : BW.EachLabelInOneBlock chunks codes)
    (hfill : c.fillArg = R.userFill) (H_allnan : HAllNaN R s)
    (H_dropped : BW.HDropped R (segsOf chunks codes vals)) (H_somelabel : BW.HSomeLabel R codes n)
    (H_absent : ∀ g : Nat, g < n → HAbsent R (members (Int.ofNat g) codes vals)) :
    runKnown c (.blockwise false) floatData chunks (codeKeys codes) vals
      = runKnown c .eager floatData chunks' (codeKeys codes) vals :=
  BW.blockwise_eq_eager R s c n floatData chunks chunks' codes vals hR heng hn hknown hshape hcodes hlen hsum hpos
    hone hfill H_allnan H_dropped H_somelabel H_absent

/-- **The chunking (among those satisfying the precondition) and `sort` are irrelevant.** -/
theorem blockwise_chunking_sort_irrelevant (R : Resolved) (s : Shape) (c₁ c₂ : Call) (n : Nat) (floatData : Bool)
    (chunks₁ chunks₂ : List Nat) (codes : List Int) (vals : List Val)
    (hR₁ : c₁.R = R) (heng₁ : c₁.eng = .npg) (hn₁ : c₁.ngroups = n) (hknown₁ : c₁.knownLabels = true)
    (hR₂ : c₂.R = R) (heng₂ : c₂.eng = .npg) (hn₂ : c₂.ngroups = n) (hknown₂ : c₂.knownLabels = true)
    (hshape : R.shape? = some s) (hcodes : CodesOK codes n) (hlen : codes.length = vals.length)
    (hsum₁ : chunks₁.sum = codes.length) (hpos₁ : ∀ k ∈ chunks₁, 0 < k)
    (hone₁ : BW.EachLabelInOneBlock chunks₁ codes)
    (hsum₂ : chunks₂.sum = codes.length) (hpos₂ : ∀ k ∈ chunks₂, 0 < k)
    (hone₂ : BW.EachLabelInOneBlock chunks₂ codes)
    (hfill₁ : c₁.fillArg = R.userFill) (hfill₂ : c₂.fillArg = R.userFill) (H_allnan : HAllNaN R s)
    (H_dropped₁ : BW.HDropped R (segsOf chunks₁ codes vals)) (H_dropped₂ : BW.HDropped R (segsOf chunks₂ codes vals))
    (H_somelabel : BW.HSomeLabel R codes n) :
    runKnown c₁ (.blockwise false) floatData chunks₁ (codeKeys codes) vals
      = runKnown c₂ (.blockwise false) floatData chunks₂ (codeKeys codes) vals :=
  BW.blockwise_chunking_sort_irrelevant R s c₁ c₂ n floatData chunks₁ chunks₂ codes vals hR₁ heng₁ hn₁ hknown₁ hR₂
    heng₂ hn₂ hknown₂ hshape hcodes hlen hsum₁ hpos₁ hone₁ hsum₂ hpos₂ hone₂ hfill₁ hfill₂ H_allnan H_dropped₁
    H_dropped₂ H_somelabel

/-- **Blockwise with reindexing at the block stage, one block = eager**, for EVERY blueprint (arg-reductions and
    blueprints without a `Shape` included), engine and input – no hypothesis besides "the single block of size `m`
    covers the data".  (With more than one block the model returns `ValueError`: `BWEx.blockwise_true_two_blocks`.) -/
theorem blockwise_single_eq_eager (c : Call) (floatData : Bool) (m : Nat) (chunks' : List Nat) (keys : List Key)
    (vals : List Val) (hk : keys.length ≤ m) (hv : vals.length ≤ m) :
    runKnown c (.blockwise true) floatData [m] keys vals = runKnown c .eager floatData chunks' keys vals :=
  BW.blockwise_single_eq_eager c floatData m chunks' keys vals hk hv

/-! ## §5 map-reduce with `_grouped_combine` -/

/-- **Grouped combine = specification.**  `useGroupedCombine c floatData = true` selects `_grouped_combine`
    (concatenate the blocks' groups and intermediates in block order, run `chunk_reduce` with the combine kernels) –
    the plan flox uses for `nanfirst` / `nanlast` / `first` / `last` on non-float data, for arg-reductions and for
    labels unknown at graph-construction time.  For blueprints with a `Shape`, every chunking and every `split_every`
    the result is `Spec.reduce`.  No `H_absent`.  Narrower than the property: `Grp.HDropped R codes vals` (no fill,
    count mask on, dropped elements present ⇒ they have `≥ min_count` valid values; `Grp.GEx.H_dropped_counterexample`),
    `codes ≠ []` (`Grp.GEx.codes_ne_nil_counterexample`), `chunks ≠ []`, `H_minmax`. -/
theorem mapreduce_grouped_eq_spec (R : Resolved) (s : Shape) (c : Call) (n : Nat) (floatData : Bool)
    (chunks : List Nat) (codes : List Int) (vals : List Val)
    (hR : c.R = R) (heng : c.eng = .npg) (hn : c.ngroups = n)
    (hshape : R.shape? = some s) (hcodes : CodesOK codes n) (hlen : codes.length = vals.length)
    (hne : codes ≠ [])
    (H_minmax : HMinMax R s) (H_dropped : Grp.HDropped R codes vals)
    (hchunks : chunks ≠ []) (hsum : chunks.sum = codes.length)
    (hcombine : useGroupedCombine c floatData = true) :
    runKnown c (.mapreduce false) floatData chunks (codeKeys codes) vals = specResult s.kernel R codes vals n :=
  Grp.mapreduce_grouped_eq_spec R s c n floatData chunks codes vals hR heng hn hshape hcodes hlen hne H_minmax
    H_dropped hchunks hsum hcombine

/-- **Grouped combine = eager** -/
theorem mapreduce_grouped_eq_eager (R : Resolved) (s : Shape) (c : Call) (n : Nat) (floatData : Bool)
    (chunks chunks' : List Nat) (codes : List Int) (vals : List Val)
    (hR : c.R = R) (heng : c.eng = .npg) (hn : c.ngroups = n) (hknown : c.knownLabels = true)
    (hshape : R.shape? = some s) (hcodes : CodesOK codes n) (hlen : codes.length = vals.length)
    (hne : codes ≠ [])
    (H_absent : ∀ g : Nat, g < n → HAbsent R (members (Int.ofNat g) codes vals))
    (H_allnan : HAllNaN R s) (H_minmax : HMinMax R s) (H_dropped : Grp.HDropped R codes vals)
    (hchunks : chunks ≠ []) (hsum : chunks.sum = codes.length)
    (hcombine : useGroupedCombine c floatData = true) :
    runKnown c (.mapreduce false) floatData chunks (codeKeys codes) vals
      = runKnown c .eager floatData chunks' (codeKeys codes) vals :=
  Grp.mapreduce_grouped_eq_eager R s c n floatData chunks chunks' codes vals hR heng hn hknown hshape hcodes hlen hne
    H_absent H_allnan H_minmax H_dropped hchunks hsum hcombine

/-! ## §6 necessity of the hypotheses (the most informative counterexamples, restated) -/

/-- **`H_dropped` is necessary – a defect of the modelled library** (reproduced with the real flox:
    `groupby_reduce(dask [1., nan], by=[0, 5], func="nanmean", expected_groups=[0], min_count=1, fill_value=None,
    method="map-reduce", reindex=False)` raises `ValueError: Filling is required but fill_value is None`, while
    `reindex=True` and the eager path return `[1.]`).  `E2E.RnanmeanNoFill` is `nanmean`, `min_count=1`, no fill;
    the data are `[1, NaN]` with codes `[0, -1]`, one requested label. -/
theorem H_dropped_counterexample :
    E2E.RnanmeanNoFill.shape? = some (.mean true) ∧ HMinMax E2E.RnanmeanNoFill (.mean true)
    ∧ CodesOK [0, -1] 1 ∧ ¬ HDropped E2E.RnanmeanNoFill 1 [0, -1] [Val.fin 1, Val.nan]
    ∧ runKnown (E2E.mkCall E2E.RnanmeanNoFill .npg 1 2) (.mapreduce false) true [2] (codeKeys [0, -1])
        [Val.fin 1, Val.nan] = .error "ValueError"
    ∧ specResult .nanmean E2E.RnanmeanNoFill [0, -1] [Val.fin 1, Val.nan] 1 = .ok [Val.fin 1]
    ∧ runKnown (E2E.mkCall E2E.RnanmeanNoFill .npg 1 2) (.mapreduce true) true [2] (codeKeys [0, -1])
        [Val.fin 1, Val.nan] = .ok [Val.fin 1]
    ∧ runKnown (E2E.mkCall E2E.RnanmeanNoFill .npg 1 2) .eager true [2] (codeKeys [0, -1]) [Val.fin 1, Val.nan]
        = .ok [Val.fin 1] :=
  E2E.H_dropped_counterexample

/-- **`H_absent` separates the reindex modes**: `sum`, no `min_count`, `fill_value=7`, label 1 requested but absent.
    Only `reindex=False` returns what the specification demands (`[1, 7]`); `reindex=True` leaves the intermediate
    fill 0 and the eager path the NumPy fill NaN in the absent slot (open finding F9). -/
theorem sparse_vs_dense_absent :
    ¬ HAbsent { E2E.Rsum with userFill := some (Val.fin 7) } (members 1 [0] [Val.fin 1])
    ∧ specResult .sum { E2E.Rsum with userFill := some (Val.fin 7) } [0] [Val.fin 1] 2 = .ok [Val.fin 1, Val.fin 7]
    ∧ runKnown (E2E.mkCall { E2E.Rsum with userFill := some (Val.fin 7) } .npg 2 2) (.mapreduce false) true [1]
        (codeKeys [0]) [Val.fin 1] = .ok [Val.fin 1, Val.fin 7]
    ∧ runKnown (E2E.mkCall { E2E.Rsum with userFill := some (Val.fin 7) } .npg 2 2) (.mapreduce true) true [1]
        (codeKeys [0]) [Val.fin 1] = .ok [Val.fin 1, Val.fin 0]
    ∧ runKnown (E2E.mkCall { E2E.Rsum with userFill := some (Val.fin 7) } .npg 2 2) .eager true [1] (codeKeys [0])
        [Val.fin 1] = .ok [Val.fin 1, Val.nan] :=
  E2E.sparse_vs_dense_absent

/-- **`HCohortFill` is necessary – a method-dependent behaviour of the modelled library** (reproduced with the real
    flox: `groupby_reduce(dask [1,2,3,4], by=[0,0,2,2], func="nanmax", expected_groups=[0,1,2], fill_value=None,
    method="cohorts")` raises `ValueError: Filling is required. fill_value cannot be None.`, while
    `method="map-reduce"` and the eager path return `[2, nan, 4]`).  `E2E.cNanmaxNoArg` is the `nanmax` call whose
    `fill_value` argument is `None` while the aggregation's fill is NaN. -/
theorem H_cohortfill_counterexample :
    E2E.Rnanmax.shape? = some (.simple .nanmax .nanmax Val.ninf)
    ∧ cohortsSoundB [1] [0] 2 [([0], [0])] = true
    ∧ E2E.cNanmaxNoArg.fillArg ≠ E2E.Rnanmax.userFill
    ∧ runKnown E2E.cNanmaxNoArg (.cohorts [([0], [0])]) true [1] (codeKeys [0]) [Val.fin 1] = .error "ValueError"
    ∧ specResult .nanmax E2E.Rnanmax [0] [Val.fin 1] 2 = .ok [Val.fin 1, Val.nan]
    ∧ runKnown E2E.cNanmaxNoArg (.mapreduce false) true [1] (codeKeys [0]) [Val.fin 1] = .ok [Val.fin 1, Val.nan]
    ∧ runKnown E2E.cNanmaxNoArg (.mapreduce true) true [1] (codeKeys [0]) [Val.fin 1] = .ok [Val.fin 1, Val.nan]
    ∧ runKnown E2E.cNanmaxNoArg .eager true [1] (codeKeys [0]) [Val.fin 1] = .ok [Val.fin 1, Val.nan] :=
  E2E.H_cohortfill_counterexample

/-- **The precondition of `method="blockwise"` is necessary.**  Label 0 occurs in two blocks: the model's final
    reindex silently takes the FIRST block's partial result (1 instead of 6).  (The real library now raises
    `ValueError` for a label occurring in two blocks: a known divergence of the model, outside the documented
    precondition.) -/
theorem each_label_in_one_block_counterexample :
    ¬ BW.EachLabelInOneBlock [2, 1] [0, 1, 0]
    ∧ runKnown (BWEx.mk E2E.Rsum .npg false 2) (.blockwise false) true [2, 1] (codeKeys [0, 1, 0])
        [Val.fin 1, Val.fin 2, Val.fin 5] = .ok [Val.fin 1, Val.fin 2]
    ∧ specResult .sum E2E.Rsum [0, 1, 0] [Val.fin 1, Val.fin 2, Val.fin 5] 2 = .ok [Val.fin 6, Val.fin 2] :=
  BWEx.each_label_in_one_block_counterexample

/-! ### non-vacuity of §2–§5 (every hypothesis is satisfiable on data with a dropped element, an absent requested label
    and an all-NaN label; the common value is a real one) -/

open E2E in
/-- `reindex=False`, 4 blocks, binary tree -/
example : runKnown (mkCall Rnanmean .npg 4 2) (.mapreduce false) true [2, 1, 3, 2] (codeKeys codes8) vals8
      = specResult .nanmean Rnanmean codes8 vals8 4
    ∧ specResult .nanmean Rnanmean codes8 vals8 4 = .ok [Val.fin (3/2), Val.fin (-1), Val.fin 4, Val.fin (-1)] :=
  ⟨mapreduce_sparse_eq_spec Rnanmean (.mean true) (mkCall Rnanmean .npg 4 2) 4 true [2, 1, 3, 2] codes8 vals8
      rfl rfl rfl rfl (by decide +kernel) codes8_ok rfl (by decide +kernel) (by decide +kernel) rfl
      (by decide +kernel), by decide +kernel⟩

open E2E in
/-- cohorts: two cohorts sharing a block, dict order not sorted by label -/
example : runKnown (mkCall Rnanmean .npg 4 2) (.cohorts cs8a) true [2, 1, 3, 2] (codeKeys codes8) vals8
    = specResult .nanmean Rnanmean codes8 vals8 4 :=
  cohorts_eq_spec Rnanmean (.mean true) (mkCall Rnanmean .npg 4 2) 4 true [2, 1, 3, 2] codes8 vals8 cs8a
    rfl rfl rfl rfl (by decide +kernel) rfl cs8a_sound (fun _ _ _ _ => Or.inl (by decide))
    (by decide +kernel) ⟨fun _ _ _ => rfl, by decide +kernel⟩ rfl (by decide +kernel)

open E2E BWEx in
/-- blockwise: three blocks, labels `0 | 2 | 3`, label 1 absent, dropped elements in two blocks, group 3 all-NaN -/
example : runKnown (mk Rnanmean .npg true 4) (.blockwise false) true chunksA (codeKeys codesA) valsA
      = specResult .nanmean Rnanmean codesA valsA 4
    ∧ specResult .nanmean Rnanmean codesA valsA 4 = .ok [Val.fin 2, Val.fin (-1), Val.fin 5, Val.fin (-1)] :=
  ⟨blockwise_eq_spec Rnanmean (.mean true) (mk Rnanmean .npg true 4) 4 true chunksA codesA valsA rfl rfl rfl rfl
      (by decide +kernel) (by decide +kernel) rfl rfl (by decide) (by decide +kernel) rfl (by decide +kernel)
      (by decide +kernel) (by decide +kernel), by decide +kernel⟩

open E2E Grp.GEx in
/-- grouped combine: `nanlast` on non-float data, 4 blocks, binary tree -/
example : runKnown (mkCall Rnanlast .npg 4 2) (.mapreduce false) false [2, 1, 3, 2] (codeKeys codes8) vals8
      = specResult .nanlast Rnanlast codes8 vals8 4
    ∧ specResult .nanlast Rnanlast codes8 vals8 4 = .ok [Val.fin 2, Val.fin (-7), Val.fin 5, Val.nan] :=
  ⟨mapreduce_grouped_eq_spec Rnanlast (.simple .nanlast .nanlast Val.nan) (mkCall Rnanlast .npg 4 2) 4 false
      [2, 1, 3, 2] codes8 vals8 rfl rfl rfl (by decide +kernel) codes8_ok rfl (by decide) (by decide +kernel)
      (by decide +kernel) (by decide) rfl (by decide +kernel), by decide +kernel⟩

end Flox.C02
