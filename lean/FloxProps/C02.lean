import FloxProofs.Members
namespace Flox.C02
theorem placeholder_members_append (g : Int) (c₁ c₂ : List Int) (v₁ v₂ : List Val) (h : c₁.length = v₁.length) :
    members g (c₁ ++ c₂) (v₁ ++ v₂) = members g c₁ v₁ ++ members g c₂ v₂ := members_append g c₁ c₂ v₁ v₂ h
end Flox.C02
