/-
  C02 — map-reduce over a chunked array (blocks reindexed to the expected groups, `_simple_combine`, tree reduction
  with any `split_every`) = the eager result = the specification; tie to the live `_initialize_aggregation` table.
  Property theorems only (helper lemmas live in FloxProofs).
-/
import FloxProofs.EndToEnd
import FloxProofs.TableShape
import FloxProofs.EndToEndExamples

namespace Flox.C02

/-- **Map-reduce = eager.**  For a resolved blueprint with a `Shape` (simple-combine reductions), the numpy_groupies
    engine, integer codes in `-1..n-1`, and ANY chunking `chunks` (non-empty, covering the array) and ANY
    `split_every`, the map-reduce plan with reindexing at the block stage returns exactly what the eager path
    returns (including the `ValueError` outcome).

    * `H_absent`: a requested label that does not occur gets the user's fill only through the count mask
      (otherwise eager gives the NumPy fill and map-reduce the finalized intermediate fills).
    * `H_allnan`: nanmax / nanmin / nanfirst / nanlast / nanmean / nanvar: NumPy fill NaN unless the mask is on.
    * `H_minmax`: nanmax / nanmin: the count mask is on (`min_count ≥ 1`, as the registry forces). -/
theorem mapreduce_dense_eq_eager (R : Resolved) (s : Shape) (c : Call) (n : Nat) (floatData : Bool)
    (chunks chunks' : List Nat) (codes : List Int) (vals : List Val)
    (hR : c.R = R) (heng : c.eng = .npg) (hn : c.ngroups = n) (hknown : c.knownLabels = true)
    (hshape : R.shape? = some s)
    (hcodes : ∀ c ∈ codes, -1 ≤ c ∧ c < (n : Int)) (hlen : codes.length = vals.length)
    (H_absent : ∀ g : Nat, g < n → R.minCount ≥ 1 ∨ members (Int.ofNat g) codes vals ≠ [])
    (H_allnan : s.needsNaNFill = true → R.minCount ≥ 1 ∨ R.npFill = Val.nan)
    (H_minmax : s.isNanMinMax = true → R.minCount ≥ 1)
    (hchunks : chunks ≠ []) (hsum : chunks.sum = codes.length)
    (hcombine : useGroupedCombine c floatData = false) :
    runKnown c (.mapreduce true) floatData chunks (codes.map fun (i : Int) => (some (i : Rat) : Key)) vals
      = runKnown c .eager floatData chunks' (codes.map fun (i : Int) => (some (i : Rat) : Key)) vals :=
  Flox.mapreduce_dense_eq_eager R s c n floatData chunks chunks' codes vals hR heng hn hknown hshape hcodes hlen
    H_absent H_allnan H_minmax hchunks hsum hcombine

/-- **Map-reduce = specification** (no condition on the NumPy fill) -/
theorem mapreduce_dense_eq_spec (R : Resolved) (s : Shape) (c : Call) (n : Nat) (floatData : Bool)
    (chunks : List Nat) (codes : List Int) (vals : List Val)
    (hR : c.R = R) (heng : c.eng = .npg) (hn : c.ngroups = n) (hknown : c.knownLabels = true)
    (hshape : R.shape? = some s)
    (hcodes : ∀ c ∈ codes, -1 ≤ c ∧ c < (n : Int)) (hlen : codes.length = vals.length)
    (H_absent : ∀ g : Nat, g < n → R.minCount ≥ 1 ∨ members (Int.ofNat g) codes vals ≠ [])
    (H_minmax : s.isNanMinMax = true → R.minCount ≥ 1)
    (hchunks : chunks ≠ []) (hsum : chunks.sum = codes.length)
    (hcombine : useGroupedCombine c floatData = false) :
    runKnown c (.mapreduce true) floatData chunks (codes.map fun (i : Int) => (some (i : Rat) : Key)) vals
      = (match Spec.reduce s.kernel R.minCount R.userFill codes vals n with
          | some vs => .ok vs
          | none => .error "ValueError") :=
  Flox.mapreduce_dense_eq_spec R s c n floatData chunks codes vals hR heng hn hknown hshape hcodes hlen H_absent
    H_minmax hchunks hsum hcombine

/-- **Chunking and tree shape are irrelevant**: two calls that differ only in chunking and `split_every`
    (and `sort`, `fillArg`) return the same result. -/
theorem mapreduce_dense_chunking_tree_irrelevant (R : Resolved) (s : Shape) (c₁ c₂ : Call) (n : Nat)
    (floatData : Bool) (chunks₁ chunks₂ : List Nat) (codes : List Int) (vals : List Val)
    (hR₁ : c₁.R = R) (heng₁ : c₁.eng = .npg) (hn₁ : c₁.ngroups = n) (hknown₁ : c₁.knownLabels = true)
    (hR₂ : c₂.R = R) (heng₂ : c₂.eng = .npg) (hn₂ : c₂.ngroups = n) (hknown₂ : c₂.knownLabels = true)
    (hshape : R.shape? = some s)
    (hcodes : ∀ c ∈ codes, -1 ≤ c ∧ c < (n : Int)) (hlen : codes.length = vals.length)
    (H_absent : ∀ g : Nat, g < n → R.minCount ≥ 1 ∨ members (Int.ofNat g) codes vals ≠ [])
    (H_minmax : s.isNanMinMax = true → R.minCount ≥ 1)
    (hchunks₁ : chunks₁ ≠ []) (hsum₁ : chunks₁.sum = codes.length)
    (hchunks₂ : chunks₂ ≠ []) (hsum₂ : chunks₂.sum = codes.length)
    (hcombine₁ : useGroupedCombine c₁ floatData = false) (hcombine₂ : useGroupedCombine c₂ floatData = false) :
    runKnown c₁ (.mapreduce true) floatData chunks₁ (codes.map fun (i : Int) => (some (i : Rat) : Key)) vals
      = runKnown c₂ (.mapreduce true) floatData chunks₂ (codes.map fun (i : Int) => (some (i : Rat) : Key)) vals :=
  Flox.mapreduce_dense_chunking_tree_irrelevant R s c₁ c₂ n floatData chunks₁ chunks₂ codes vals hR₁ heng₁ hn₁
    hknown₁ hR₂ heng₂ hn₂ hknown₂ hshape hcodes hlen H_absent H_minmax hchunks₁ hsum₁ hchunks₂ hsum₂ hcombine₁
    hcombine₂

/-- the same three statements hold with flox's own engine (`mapreduce_dense_eq_spec_flox` for every shape) -/
theorem mapreduce_dense_eq_spec_flox (R : Resolved) (s : Shape) (c : Call) (n : Nat) (floatData : Bool)
    (chunks : List Nat) (codes : List Int) (vals : List Val)
    (hR : c.R = R) (heng : c.eng = .flox) (hn : c.ngroups = n) (hknown : c.knownLabels = true)
    (hshape : R.shape? = some s)
    (hcodes : ∀ c ∈ codes, -1 ≤ c ∧ c < (n : Int)) (hlen : codes.length = vals.length)
    (H_absent : ∀ g : Nat, g < n → R.minCount ≥ 1 ∨ members (Int.ofNat g) codes vals ≠ [])
    (H_minmax : s.isNanMinMax = true → R.minCount ≥ 1)
    (hchunks : chunks ≠ []) (hsum : chunks.sum = codes.length)
    (hcombine : useGroupedCombine c floatData = false) :
    runKnown c (.mapreduce true) floatData chunks (codes.map fun (i : Int) => (some (i : Rat) : Key)) vals
      = (match Spec.reduce s.kernel R.minCount R.userFill codes vals n with
          | some vs => .ok vs
          | none => .error "ValueError") :=
  Flox.mapreduce_dense_eq_spec_flox R s c n floatData chunks codes vals hR heng hn hknown hshape hcodes hlen H_absent
    H_minmax hchunks hsum hcombine

/-- **Tie to the live table.**  Every `ok` row of `_initialize_aggregation` for a simple-combine reduction on
    float64 / float32 data resolves (for any user fill, any `min_count` of the row's positivity, any `ddof`) to a
    blueprint that has a `Shape` whose NumPy kernel is the one named by `func`, and satisfies `H_allnan`,
    `H_minmax` and `H_floxmean` (so only `H_absent` is left to the caller). -/
theorem generated_rows_have_shape :
    ∀ row ∈ Generated.initRows, row.ok = true → row.dkind ∈ ["f8", "f4"] →
      row.func ∈ ["sum", "nansum", "prod", "nanprod", "max", "nanmax", "min", "nanmin", "count", "mean", "nanmean",
        "var", "nanvar", "std", "nanstd", "nanfirst", "nanlast"] →
      ∀ (user : Option Val) (mc ddof : Nat), row.mcPos = decide (mc > 0) →
        ∃ R s, row.resolve user mc ddof = some R ∧ R.shape? = some s
          ∧ kernelWithDdof ddof row.func = some s.kernel
          ∧ (s.needsNaNFill = true → R.minCount ≥ 1 ∨ R.npFill = Val.nan)
          ∧ (s.isNanMinMax = true → R.minCount ≥ 1)
          ∧ (s.isMean = true → R.npFill = Val.nan)
          ∧ R.name = row.func ∧ R.ddof = ddof
          ∧ (mc > 0 → R.minCount = mc) ∧ (mc = 0 → R.minCount ≤ 1)
          ∧ (row.userFill = "user" → R.userFill = user) := by
  intro row hrow hok hdk hfunc user mc ddof hmc
  obtain ⟨R, s, hf⟩ := Flox.generated_rows_have_shape row hrow hok hdk hfunc user mc ddof hmc
  exact ⟨R, s, hf.resolve, hf.shape, hf.kernel, hf.allnan, hf.minmax, hf.floxmean, hf.name, hf.ddof, hf.minCount, hf.minCount0,
    hf.userFill⟩

/-! ### non-vacuity -/

open E2E in
/-- `nanmean(min_count=1, fill_value=-1)`, 4 blocks, binary tree: all hypotheses hold, the value is real -/
example :
    runKnown (mkCall Rnanmean .npg 4 2) (.mapreduce true) true [2, 1, 3, 2]
        (codes8.map fun (i : Int) => (some (i : Rat) : Key)) vals8
      = runKnown (mkCall Rnanmean .npg 4 2) .eager true [8] (codes8.map fun (i : Int) => (some (i : Rat) : Key)) vals8
    ∧ runKnown (mkCall Rnanmean .npg 4 2) (.mapreduce true) true [2, 1, 3, 2]
        (codes8.map fun (i : Int) => (some (i : Rat) : Key)) vals8
      = .ok [Val.fin (3/2), Val.fin (-1), Val.fin 4, Val.fin (-1)] :=
  ⟨mapreduce_dense_eq_eager Rnanmean (.mean true) (mkCall Rnanmean .npg 4 2) 4 true [2, 1, 3, 2] [8] codes8 vals8
      rfl rfl rfl rfl (by decide +kernel) (by decide +kernel) rfl (fun _ _ => Or.inl (by decide))
      (by decide +kernel) (by decide +kernel) (by decide) rfl (by decide +kernel),
    by decide +kernel⟩

open E2E in
/-- two chunkings / two trees / both engines, evaluated -/
example :
    runKnown (mkCall Rnanmean .npg 4 2) (.mapreduce true) true [2, 1, 3, 2]
        (codes8.map fun (i : Int) => (some (i : Rat) : Key)) vals8
      = runKnown (mkCall Rnanmean .npg 4 8) (.mapreduce true) true [1, 1, 1, 1, 1, 1, 1, 1]
        (codes8.map fun (i : Int) => (some (i : Rat) : Key)) vals8
    ∧ runKnown (mkCall Rnanmean .flox 4 3) (.mapreduce true) true [4, 4]
        (codes8.map fun (i : Int) => (some (i : Rat) : Key)) vals8
      = .ok [Val.fin (3/2), Val.fin (-1), Val.fin 4, Val.fin (-1)] := by decide +kernel

/-- the table theorem is not vacuous: the float64 `nanmax` row without `min_count` exists, is `ok`, and resolves to a
    blueprint whose `min_count` is forced to 1 -/
example : ∃ row ∈ Generated.initRows, row.ok = true ∧ row.dkind = "f8" ∧ row.func = "nanmax" ∧ row.mcPos = false
    ∧ row.minCount = "1" ∧ row.userFill = "nan" := by
  refine ⟨{ func := "nanmax", dkind := "f8", fillKind := "none", mcPos := false, ok := true,
            numpy := ["nanmax", "nanlen"], chunk := ["nanmax", "nanlen"], combine := ["nanmax", "sum"],
            simple := ["nanmax", "sum"], interFills := ["-inf", "0"], numpyFills := ["nan", "0"], finalFill := "nan",
            userFill := "nan", minCount := "1", finalize := "None", finalDtype := "float64",
            interDtypes := ["float64", "int64"], numpyDtypes := ["float64", "int64"], isArg := false }, ?_, ?_⟩
  · decide +kernel
  · decide +kernel

/-- necessity of the hypotheses: `E2E.H_absent_counterexample_mapreduce`, `E2E.H_allnan_counterexample`,
    `E2E.H_minmax_counterexample`, `E2E.chunks_ne_nil_counterexample`, `E2E.chunks_sum_counterexample` -/
example :
    runKnown (E2E.mkCall E2E.Rnanmax0 .npg 1 2) (.mapreduce true) true [1] ([0].map fun (i : Int) => (some (i : Rat) : Key))
        [Val.nan]
      ≠ runKnown (E2E.mkCall E2E.Rnanmax0 .npg 1 2) .eager true [1] ([0].map fun (i : Int) => (some (i : Rat) : Key))
        [Val.nan] := by decide +kernel

end Flox.C02
