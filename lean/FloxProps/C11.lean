/-
  C11 — result dtype, shape and chunk metadata are plan-independent and truthful.

  What is modelled (FloxModel/Dtype.lean + the regenerated table FloxModel/Generated/Dtypes.lean):
    `model f d u k mc e`  = dtype of the result of `groupby_reduce(func=f, array of dtype d, dtype=u, fill_value=k)` with a
                            resolved `min_count > 0` iff `mc`, `engine == "flox"` iff `e`
                            (entry logic of groupby_reduce written by hand, `_initialize_aggregation` tabulated from /repo);
  what is specified (no flox internals):
    `spec f d u k`        = NumPy's convention (`npConvention`): `dtype=` if given, else the reduction's NumPy default
                            (`npBase`), widened by `np.result_type` to hold the fill.
  The grid Func(31) × DType(13 inputs) × UserD(4) × FillK(5) × Bool × Bool is the property's quantifier over dtypes:
  the theorems are for ALL its cells.  The model has no plan / strategy / chunking argument at all: every plan ends in
  `astype(agg.dtype["final"])` (`_finalize_results`, called by `_reduce_blockwise` and `_aggregate`) – that each real
  plan honours it is OBSERVED by the harness (every cell × engine × {eager, map-reduce, cohorts, blockwise}).
  Chunk metadata: structural theorems on the pipeline model, for all label lists and chunkings.
-/
import FloxProofs.Dtype
import FloxProofs.DtypeChunks

namespace Flox.C11
open Flox Flox.Generated Flox.DtypeProofs

/-! ## the spec's NumPy conventions are NumPy's (tie 2, tables generated from NumPy itself) -/

/-- `weakPromote` is `np.result_type(dtype, python scalar)` -/
theorem weakPromote_is_numpy : ∀ r ∈ npWeak, weakPromote r.1 r.2.1 = r.2.2 := weakPromote_eq_numpy

/-- wherever NumPy itself performs the reduction (`np.sum(a).dtype`, …), the spec's default dtype is NumPy's -/
theorem npBase_is_numpy : ∀ r ∈ npReduce, ∀ t, r.2.2 = some t → npBase r.1 r.2.1 = t := npBase_eq_numpy

/-- `minScalar` / `range?` are `np.min_scalar_type` / `np.iinfo` on the fills of the grid -/
theorem minScalar_is_numpy : ∀ r ∈ npMinScalar, r.1.int?.map minScalar = some r.2 := minScalar_eq_numpy

example : npBase .sum .u8 = .u64 ∧ npBase .mean .f32 = .f32 ∧ npBase .mean .i8 = .f64 ∧ npBase .argmax .f32 = .i64 ∧
    npBase .max_ .i16 = .i16 ∧ npBase .quantile .f32 = .f64 := by decide

/-! ## result dtype = NumPy's convention -/

/- FULL STATEMENT demanded by the property (fails in one table-level cell only, see `boolMode_counterexample`):
     ∀ f d u k mc e r, inDomain f d u k → model f d u k mc e = .ok r → spec f d u (effFill f k mc) = some r        -/

/-- **Result dtype follows NumPy's conventions** on the whole grid, outside the one recorded deviation
    (`knownDeviation` = `boolModeDeviation`: the bool input of `mode` / `nanmode` is left as int64; `mode` cannot be run
    in this environment, so the cell is visible in the table only): whenever the call returns, its dtype is the requested
    dtype, else the reduction's NumPy default, widened by `np.result_type` to hold the fill — for every reduction,
    input dtype, `dtype=`, fill, `min_count` and engine.  (Until /repo d4708ca a second deviation existed: bool input
    of min/max/first/last was cast back to bool whatever `dtype=` / `fill_value=` asked for; see
    `boolSelect_follows_convention`.) -/
theorem finalDtype_eq_convention_partial (f : Func) (d : DType) (u : UserD) (k : FillK) (mc e : Bool) (r : DType)
    (hdom : inDomain f d u k = true) (hdev : knownDeviation f d u k = false)
    (h : model f d u k mc e = .ok r) : spec f d u (effFill f k mc) = some r := by
  have he := (engine_independent f d u k mc).1
  have hc := (checkCell_at f d u k mc).1
  cases e
  · simp only [checkConvention, hdom, Bool.not_true, Bool.false_or, h, hdev] at hc
    exact eq_of_beq hc
  · rw [he] at h
    simp only [checkConvention, hdom, Bool.not_true, Bool.false_or, h, hdev] at hc
    exact eq_of_beq hc

/-- the same statement for everything but `mode` / `nanmode`, without any deviation hypothesis -/
theorem finalDtype_eq_convention (f : Func) (d : DType) (u : UserD) (k : FillK) (mc e : Bool) (r : DType)
    (hdom : inDomain f d u k = true) (hf : f ≠ .mode ∧ f ≠ .nanmode)
    (h : model f d u k mc e = .ok r) : spec f d u (effFill f k mc) = some r := by
  apply finalDtype_eq_convention_partial f d u k mc e r hdom _ h
  simp [knownDeviation, boolModeDeviation, hf.1, hf.2]

/-- inside NumPy's domain the dtype logic refuses exactly one kind of call: an arg-reduction with a floating `dtype=`
    (`ValueError("arg-reductions return integer positions")`); all other refusals come from kernels at run time -/
theorem finalDtype_defined (f : Func) (d : DType) (u : UserD) (k : FillK) (mc e : Bool)
    (hdom : inDomain f d u k = true) (harg : argFloatRefused f u = false) : ∃ r, model f d u k mc e = .ok r := by
  have he := (engine_independent f d u k mc).1
  have hc := (checkCell_at f d u k mc).1
  simp only [checkConvention, hdom, Bool.not_true, Bool.false_or] at hc
  have : ∃ r, model f d u k mc false = .ok r := by
    cases hm : model f d u k mc false with
    | ok r => exact ⟨r, rfl⟩
    | error s => rw [hm] at hc; simp only at hc; rw [harg] at hc; cases hc
  cases e
  · exact this
  · rw [he]; exact this

/-- …and that refusal does happen, whatever the other arguments -/
theorem argFloat_refused (f : Func) (d : DType) (u : UserD) (k : FillK) (mc e : Bool)
    (harg : argFloatRefused f u = true) : model f d u k mc e = .error "ValueError" := by
  unfold model apiDtype
  simp [harg]

/-- the hypotheses are satisfiable and the conclusion is informative -/
example : inDomain .nansum .u8 .unset .neg = true ∧ knownDeviation .nansum .u8 .unset .neg = false ∧
    modelDtype .nansum .u8 .unset .neg false false = some .f64 ∧ spec .nansum .u8 .unset .neg = some .f64 := by decide +kernel
example : modelDtype .max_ .i8 .unset .big false true = some .i64 ∧ modelDtype .nanmean .i16 .f32 .unset true false = some .f32 ∧
    modelDtype .count .M8 .unset .unset false false = some .i64 ∧ modelDtype .first .m8 .unset .unset false false = some .m8 := by
  decide +kernel

/-- the former deviation cell (finding C11-F2, repaired): min / max / first / last of a bool array now widen like every
    other input — bool without `dtype=` / fill, int64 for an integer fill, float64 for NaN, the requested dtype otherwise -/
theorem boolSelect_follows_convention :
    modelDtype .max_ .bool .unset .unset false false = some .bool ∧
    modelDtype .max_ .bool .unset .nan false false = some .f64 ∧ spec .max_ .bool .unset .nan = some .f64 ∧
    modelDtype .nanfirst .bool .unset .neg false false = some .i64 ∧ spec .nanfirst .bool .unset .neg = some .i64 ∧
    modelDtype .min_ .bool .f32 .zero true false = some .f32 ∧ spec .min_ .bool .f32 .zero = some .f32 := by decide +kernel

/-- necessity of `knownDeviation`: `mode` of a bool array is int64, not the input dtype -/
theorem boolMode_counterexample :
    modelDtype .mode .bool .unset .unset false false = some .i64 ∧ spec .mode .bool .unset .unset = some .bool := by
  decide +kernel

/-! ## engine / plan / min_count independence -/

/-- **the dtype logic has no engine column**: `engine="flox"` takes a different branch at entry (count on datetimes is not
    viewed as int64) but neither the result dtype nor the dtypes handed to the kernels change.
    (Plan / strategy / chunking are not even arguments of `model`: see the header.) -/
theorem dtype_engine_plan_independent (f : Func) (d : DType) (u : UserD) (k : FillK) (mc : Bool) :
    model f d u k mc true = model f d u k mc false ∧
    apiInit dtypeRowsOf f d u k mc true = apiInit dtypeRowsOf f d u k mc false :=
  engine_independent f d u k mc

/-- `min_count` changes the dtype in one documented cell only (nansum / nanprod without `fill_value`), where it acts
    exactly like `fill_value = NaN` -/
theorem dtype_minCount_independent (f : Func) (d : DType) (u : UserD) (k : FillK) (e : Bool) :
    modelDtype f d u (effFill f k true) true e = modelDtype f d u (effFill f k true) false e ∨
    ((f = .nansum ∨ f = .nanprod) ∧ k = .unset ∧
      modelDtype f d u .unset true e = modelDtype f d u .nan true e) := by
  have hc := (checkCell_at f d u k true).2.1
  have he : ∀ k mc, modelDtype f d u k mc e = modelDtype f d u k mc false := by
    intro k mc
    cases e
    · rfl
    · unfold modelDtype; rw [(engine_independent f d u k mc).1]
  simp only [checkMinCount, Bool.not_true, Bool.false_or] at hc
  split at hc
  · rename_i hcond
    right
    simp only [Bool.and_eq_true, Bool.or_eq_true, beq_iff_eq] at hcond
    refine ⟨hcond.1, hcond.2, ?_⟩
    rw [he, he]; exact eq_of_beq hc
  · rename_i hcond
    left
    have hk : effFill f k true = k := by
      unfold effFill
      simp only [Bool.and_eq_true, Bool.or_eq_true, beq_iff_eq, not_and, Bool.true_and] at hcond ⊢
      by_cases h1 : (f = .nansum ∨ f = .nanprod)
      · have := hcond h1
        simp [this]
      · simp at h1
        simp [h1.1, h1.2]
    rw [hk, he, he k false]; exact eq_of_beq hc

theorem minCount_counterexample :
    modelDtype .nansum .i8 .unset .unset true false = some .f64 ∧
    modelDtype .nansum .i8 .unset .unset false false = some .i64 := by decide +kernel

/-! ## accumulation width -/

/-- **integer (or bool) input, no `dtype=`**: every sum-like intermediate (sum, nansum, prod, nanprod, sum of squares) of
    every reduction is 64 bits wide, and for the accumulating reductions (sum, prod, mean, var, std, median, quantile)
    the dtype handed to the eager kernel IS the final dtype, itself 64 bits wide — never the narrower input dtype. -/
theorem intermediates_wide_enough (f : Func) (d : DType) (k : FillK) (mc e : Bool) (init : DInit)
    (hd : d = .bool ∨ d.isInt = true)
    (h : apiInit dtypeRowsOf f d .unset k mc e = some init) :
    (∀ p ∈ init.inter, sumLike p.1 = true → wide p.2 = true) ∧
    (accumulates f = true → wide init.final = true ∧ init.numpy.head? = some init.final) := by
  have hc := (checkCell_at f d .unset k mc).2.2.1
  have he := (engine_independent f d .unset k mc).2
  have h' : apiInit dtypeRowsOf f d .unset k mc false = some init := by
    cases e
    · exact h
    · rw [← he]; exact h
  have hcond : ((d == .bool || d.isInt) && UserD.unset == UserD.unset) = true := by
    rcases hd with hd | hd
    · subst hd; rfl
    · simp [hd]
  simp only [checkWide, hcond, Bool.not_true, Bool.false_or, h', Bool.and_eq_true, List.all_eq_true,
    Bool.or_eq_true, Bool.not_eq_true', beq_iff_eq] at hc
  refine ⟨?_, ?_⟩
  · intro p hp hs
    rcases hc.1 p hp with h1 | h1
    · rw [hs] at h1; cases h1
    · exact h1
  · intro ha
    rcases hc.2 with h1 | h1
    · rw [ha] at h1; cases h1
    · exact h1

example : apiInit dtypeRowsOf .nanvar .i8 .unset .unset false false =
    some { final := .f64, numpy := [.f64], inter := [("nansum_of_squares", .f64), ("nansum", .f64), ("nanlen", .i64)] } := by
  decide +kernel

/-- with a requested `dtype=` the accumulators of sum / prod / mean / var / std use that (final) dtype or a 64-bit one -/
theorem intermediates_follow_requested_dtype (f : Func) (d : DType) (u : UserD) (k : FillK) (mc : Bool) (init : DInit)
    (hd : d = .bool ∨ d.isInt = true) (hu : u ≠ .unset)
    (hf : f.family = .additive ∨ f.family = .floating)
    (h : apiInit dtypeRowsOf f d u k mc false = some init) :
    ∀ p ∈ init.inter, sumLike p.1 = true → (p.2 = init.final ∨ wide p.2 = true) := by
  have hc := (checkCell_at f d u k mc).2.2.2.1
  have hcond : ((d == .bool || d.isInt) && u != .unset && (f.family == .additive || f.family == .floating)) = true := by
    have h1 : (d == .bool || d.isInt) = true := by
      rcases hd with hd | hd
      · subst hd; rfl
      · simp [hd]
    have h2 : (u != .unset) = true := by simpa using hu
    have h3 : (f.family == .additive || f.family == .floating) = true := by
      rcases hf with hf | hf <;> simp [hf]
    simp [h1, h2, h3]
  simp only [checkWideUser, hcond, Bool.not_true, Bool.false_or, h, List.all_eq_true, Bool.or_eq_true,
    Bool.not_eq_true', beq_iff_eq] at hc
  intro p hp hs
  rcases hc p hp with h1 | h1
  · rw [hs] at h1; cases h1
  · exact h1

/-- the final `reindex_` of `groupby_reduce` promotes through `maybe_promote` when the fill is NaN: on a dtype already
    widened for NaN this is the identity, so absent labels cannot change the dtype after the fact -/
theorem final_reindex_keeps_dtype (f : Func) (d : DType) (u : UserD) (mc : Bool) (init : DInit)
    (hd : d ≠ .obj) (hdt : d.isDatetimeLike = false)
    (h : apiInit dtypeRowsOf f d u .nan mc false = some init) :
    (floxMaybePromote.find? fun r => r.1 == init.final).map (·.2) = some init.final := by
  have hc := (checkCell_at f d u .nan mc).2.2.2.2
  have hd' : (d == DType.obj) = false := by simpa using hd
  simp only [checkReindexStable, beq_self_eq_true, Bool.not_true, Bool.false_or, hd', hdt, h] at hc
  exact eq_of_beq hc

/-! ## chunks along the group axis: announced = computed -/

/-- map-reduce with combine-time reindexing, and every cohort reduced with the grouped combine: the aggregate step returns
    exactly the announced groups (`expected_groups` resp. the cohort's labels), whatever the intermediates -/
theorem announced_groups_eq_computed_reindexed (R : Resolved) (x : Inter) (ex gs : List Key) (vs : List Val)
    (h : finalizeResults R x (some ex) false = .ok (gs, vs)) : gs = ex :=
  finalize_groups_reindexed R x ex gs vs h

/-- hence the announced chunk sizes `(len(expected_groups),)` / `(len(cohort) …)` are the computed ones -/
theorem announced_chunks_mapreduce (R : Resolved) (x : Inter) (n : Nat) (gs : List Key) (vs : List Val)
    (h : finalizeResults R x (some (rangeKeys n)) false = .ok (gs, vs)) : [gs.length] = announcedMapReduce n := by
  rw [finalize_groups_reindexed R x _ gs vs h]
  simp [announcedMapReduce, rangeKeys]

/-- `…_partial`: with blocks reindexed up front (`reindex.blockwise=True`, simple combine) the aggregate returns the groups
    carried by the intermediates; that these are `expected_groups` is part of the value proofs of C02 (dense map-reduce).
    Full statement: `gs = ex`. -/
theorem announced_groups_eq_computed_kept_partial (R : Resolved) (x : Inter) (ex : Option (List Key)) (gs : List Key)
    (vs : List Val) (h : finalizeResults R x ex true = .ok (gs, vs)) : gs = x.groups :=
  finalize_groups_kept R x ex true gs vs (Or.inl rfl) h

/-- **blockwise**: for every chunking and label list, announced chunk sizes = number of groups each block returns,
    provided every block holds a labelled element -/
theorem announced_chunks_blockwise (eng : Eng) (ks : List Kernel) (fills : List Val) (sort : Bool)
    (chunks : List Nat) (keys : List Key) (vals : List Val)
    (hne : ∀ kb ∈ splitBy chunks keys, blockEmpty kb sort = false) :
    computedBlockwise eng ks fills sort chunks keys vals = announcedBlockwise sort chunks keys :=
  blockwise_announced_eq_computed eng ks fills sort chunks keys vals hne

example : announcedBlockwise true [2, 3, 1] [some 0, some 0, some 1, some 2, some 1, some 2] = [1, 2, 1] ∧
    computedBlockwise .npg [.sum] [Val.fin 0] true [2, 3, 1] [some 0, some 0, some 1, some 2, some 1, some 2]
      [Val.fin 1, Val.fin 2, Val.fin 3, Val.fin 4, Val.fin 5, Val.fin 6] = [1, 2, 1] := by decide +kernel

/-- necessity of the hypothesis: a block without any labelled element is announced with 0 groups but returns one (NaN) -/
theorem blockwise_empty_block_counterexample :
    announcedBlockwise true [1, 1] [some 0, none] = [1, 0] ∧
    computedBlockwise .npg [.sum] [Val.fin 0] true [1, 1] [some 0, none] [Val.fin 1, Val.fin 2] = [1, 1] := by
  decide +kernel

end Flox.C11
