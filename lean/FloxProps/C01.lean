/-
  C01 — eager grouped reduction = per-group NumPy reduction, on every engine.
  Property theorems only (helper lemmas live in FloxProofs).
-/
import FloxProofs.Members
import FloxProofs.ValAlgebra

namespace Flox.C01

/-- every slot of the grouped-kernel contract is the NumPy reduction of exactly that group's members -/
theorem grouped_slot (k : Kernel) (codes : List Int) (vals : List Val) (size : Nat) (fill : Val) (g : Nat)
    (hg : g < size) :
    (grouped k codes vals size fill)[g]? =
      some (if (members (Int.ofNat g) codes vals).isEmpty then fill else kEval k (members (Int.ofNat g) codes vals)) := by
  simp [grouped, hg]

/-- one slot per code: the result has exactly `size` slots -/
theorem grouped_length (k : Kernel) (codes : List Int) (vals : List Val) (size : Nat) (fill : Val) :
    (grouped k codes vals size fill).length = size := by
  simp [grouped]

/-- elements with a code outside `0..size-1` (missing / unrequested labels are coded -1) affect no slot -/
theorem dropped_elements_ignored (k : Kernel) (c : Int) (v : Val) (codes : List Int) (vals : List Val)
    (size : Nat) (fill : Val) (hc : c < 0 ∨ (size : Int) ≤ c) :
    grouped k (c :: codes) (v :: vals) size fill = grouped k codes vals size fill := by
  unfold grouped
  apply List.map_congr_left
  intro g hg
  have hg' : g < size := by simpa using hg
  have hne : c ≠ Int.ofNat g := by
    intro h
    simp only [Int.ofNat_eq_natCast] at h
    omega
  simp only [members_cons, if_neg hne]

example : grouped .nansum [0, 1, -1, 0] [Val.fin 2, Val.nan, Val.fin 7, Val.fin 3] 2 Val.nan = [Val.fin 5, Val.fin 0] := by
  decide +kernel

end Flox.C01
