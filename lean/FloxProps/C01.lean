/-
  C01 — eager grouped reduction = per-group NumPy reduction, on every engine.
  Property theorems only (helper lemmas live in FloxProofs).
-/
import FloxProofs.Members
import FloxProofs.ValAlgebra
import FloxProofs.EndToEndFlox
import FloxProofs.EndToEndExamples

namespace Flox.C01

/-- every slot of the grouped-kernel contract is the NumPy reduction of exactly that group's members -/
theorem grouped_slot (k : Kernel) (codes : List Int) (vals : List Val) (size : Nat) (fill : Val) (g : Nat)
    (hg : g < size) :
    (grouped k codes vals size fill)[g]? =
      some (if (members (Int.ofNat g) codes vals).isEmpty then fill else kEval k (members (Int.ofNat g) codes vals)) := by
  simp [grouped, hg]

/-- one slot per code: the result has exactly `size` slots -/
theorem grouped_length (k : Kernel) (codes : List Int) (vals : List Val) (size : Nat) (fill : Val) :
    (grouped k codes vals size fill).length = size := by
  simp [grouped]

/-- elements with a code outside `0..size-1` (missing / unrequested labels are coded -1) affect no slot -/
theorem dropped_elements_ignored (k : Kernel) (c : Int) (v : Val) (codes : List Int) (vals : List Val)
    (size : Nat) (fill : Val) (hc : c < 0 ∨ (size : Int) ≤ c) :
    grouped k (c :: codes) (v :: vals) size fill = grouped k codes vals size fill := by
  unfold grouped
  apply List.map_congr_left
  intro g hg
  have hg' : g < size := by simpa using hg
  have hne : c ≠ Int.ofNat g := by
    intro h
    simp only [Int.ofNat_eq_natCast] at h
    omega
  simp only [members_cons, if_neg hne]

example : grouped .nansum [0, 1, -1, 0] [Val.fin 2, Val.nan, Val.fin 7, Val.fin 3] 2 Val.nan = [Val.fin 5, Val.fin 0] := by
  decide +kernel

/-- **End to end (numpy_groupies engine).**  For a resolved blueprint `R` with a `Shape` `s` (the built-in reductions
    that use the simple combine: sum, nansum, prod, nanprod, max, nanmax, min, nanmin, count, all, any, nanfirst,
    nanlast, mean, nanmean, var, nanvar, std, nanstd on floating data), `groupby_reduce` on in-memory data returns,
    for every requested label `0..n-1`, the NumPy reduction `s.kernel` of that label's members in original order;
    the user's fill where the label has fewer than `min_count` valid members; and raises `ValueError` exactly when
    such a slot exists and no fill was given.

    * `H_absent`: a requested label that does not occur gets the user's fill only through the count mask.
    * `H_allnan`: for nanmax / nanmin / nanfirst / nanlast / nanmean / nanvar an all-NaN group gets the NumPy fill
      of the blueprint, which must be NaN unless the count mask is on. -/
theorem eager_eq_spec (R : Resolved) (s : Shape) (c : Call) (n : Nat) (floatData : Bool)
    (chunks : List Nat) (codes : List Int) (vals : List Val)
    (hR : c.R = R) (heng : c.eng = .npg) (hn : c.ngroups = n) (hknown : c.knownLabels = true)
    (hshape : R.shape? = some s)
    (hcodes : ∀ c ∈ codes, -1 ≤ c ∧ c < (n : Int)) (hlen : codes.length = vals.length)
    (H_absent : ∀ g : Nat, g < n → R.minCount ≥ 1 ∨ members (Int.ofNat g) codes vals ≠ [])
    (H_allnan : s.needsNaNFill = true → R.minCount ≥ 1 ∨ R.npFill = Val.nan) :
    runKnown c .eager floatData chunks (codes.map fun (i : Int) => (some (i : Rat) : Key)) vals
      = (match Spec.reduce s.kernel R.minCount R.userFill codes vals n with
          | some vs => .ok vs
          | none => .error "ValueError") :=
  Flox.eager_eq_spec R s c n floatData chunks codes vals hR heng hn hknown hshape hcodes hlen H_absent H_allnan

/-- the same with flox's own engine (`H_floxmean`: for the `mean` / `nanmean` shapes the NumPy fill must be NaN,
    because flox's own kernels put `fill / 0` into absent slots) -/
theorem eager_eq_spec_flox (R : Resolved) (s : Shape) (c : Call) (n : Nat) (floatData : Bool)
    (chunks : List Nat) (codes : List Int) (vals : List Val)
    (hR : c.R = R) (heng : c.eng = .flox) (hn : c.ngroups = n) (hknown : c.knownLabels = true)
    (hshape : R.shape? = some s) (H_floxmean : s.isMean = true → R.npFill = Val.nan)
    (hcodes : ∀ c ∈ codes, -1 ≤ c ∧ c < (n : Int)) (hlen : codes.length = vals.length)
    (H_absent : ∀ g : Nat, g < n → R.minCount ≥ 1 ∨ members (Int.ofNat g) codes vals ≠ [])
    (H_allnan : s.needsNaNFill = true → R.minCount ≥ 1 ∨ R.npFill = Val.nan) :
    runKnown c .eager floatData chunks (codes.map fun (i : Int) => (some (i : Rat) : Key)) vals
      = (match Spec.reduce s.kernel R.minCount R.userFill codes vals n with
          | some vs => .ok vs
          | none => .error "ValueError") :=
  Flox.eager_eq_spec_flox R s c n floatData chunks codes vals hR heng hn hknown hshape H_floxmean hcodes hlen
    H_absent H_allnan

/-- flox's own engine (stable sort + `reduceat`) computes, in every slot, the block value of the group's members in
    original order -/
theorem floxEngine_eq_blockVal (k : Kernel)
    (hk : k ∈ [.sum, .prod, .max, .min, .nansum, .nanprod, .nanmax, .nanmin, .sumsq, .nansumsq, .nanlen])
    (codes : List Int) (vals : List Val) (size : Nat) (fill : Val) (hlen : codes.length = vals.length) :
    EngineFlox.run? k codes vals size fill
      = some ((List.range size).map fun (g : Nat) => blockVal k fill (members (Int.ofNat g) codes vals)) :=
  Flox.floxEngine_eq_blockVal k hk codes vals size fill hlen

/-- engine independence at the kernel level -/
theorem floxGrouped_eq_npgGrouped (k : Kernel)
    (hk : k ∈ [.sum, .prod, .max, .min, .nansum, .nanprod, .nanmax, .nanmin, .sumsq, .nansumsq, .nanlen])
    (codes : List Int) (vals : List Val) (size : Nat) (fill : Val) (hlen : codes.length = vals.length)
    (hfill : k = .nanlen ∨ k = .nansumsq → fill = Val.zero) :
    floxGrouped k codes vals size fill = npgGrouped k codes vals size fill :=
  Flox.floxGrouped_eq_npgGrouped k hk codes vals size fill hlen hfill

/-! ### non-vacuity -/

open E2E in
/-- all hypotheses of `eager_eq_spec` hold for `nanmean(min_count=1, fill_value=-1)` on data with an absent label, an
    all-NaN label and a dropped element; the common value is `[3/2, -1, 4, -1]` -/
example :
    runKnown (mkCall Rnanmean .npg 4 2) .eager true [8] (codes8.map fun (i : Int) => (some (i : Rat) : Key)) vals8
      = (match Spec.reduce (Shape.mean true).kernel Rnanmean.minCount Rnanmean.userFill codes8 vals8 4 with
          | some vs => .ok vs
          | none => .error "ValueError")
    ∧ Spec.reduce .nanmean Rnanmean.minCount Rnanmean.userFill codes8 vals8 4
      = some [Val.fin (3/2), Val.fin (-1), Val.fin 4, Val.fin (-1)] :=
  ⟨eager_eq_spec Rnanmean (.mean true) (mkCall Rnanmean .npg 4 2) 4 true [8] codes8 vals8 rfl rfl rfl rfl
      (by decide +kernel) (by decide +kernel) rfl (fun _ _ => Or.inl (by decide)) (by decide +kernel),
    by decide +kernel⟩

open E2E in
/-- flox engine, `nanmax` -/
example :
    runKnown (mkCall Rnanmax .flox 4 2) .eager true [8] (codes8.map fun (i : Int) => (some (i : Rat) : Key)) vals8
      = .ok [Val.fin 2, Val.nan, Val.fin 5, Val.nan] := by decide +kernel

open E2E in
/-- the hypotheses are necessary: see `E2E.H_absent_counterexample`, `E2E.H_allnan_counterexample`,
    `E2E.lenfill_counterexample` -/
example : ¬ (∀ g : Nat, g < 2 → Rsum.minCount ≥ 1 ∨ members (Int.ofNat g) [0] [Val.fin 1] ≠ [])
    ∧ runKnown (mkCall Rsum .npg 2 2) .eager true [1] ([0].map fun (i : Int) => (some (i : Rat) : Key)) [Val.fin 1]
        ≠ (match Spec.reduce .sum Rsum.minCount Rsum.userFill [0] [Val.fin 1] 2 with
            | some vs => .ok vs
            | none => .error "ValueError") := by
  refine ⟨fun h => ?_, by decide +kernel⟩
  have := h 1 (by decide)
  revert this
  decide +kernel

end Flox.C01
