/-
  C16 — the order of the returned group labels follows the `sort` contract; the label → value mapping never changes.

    §1  the labels returned by factorisation (`factorizeLabels` = `_convert_expected_groups_to_index` +
        `_factorize_single`), in all four cases sort ∈ {True, False} × expected_groups ∈ {given, absent}:
        strictly ascending / as given / order of first appearance; duplicate-free; nothing lost, nothing invented
    §2  the codes are positions in that list, so slot `j` of any result collects exactly the values whose LABEL is the
        `j`-th returned label – whichever order was chosen: `sort` only rearranges (label, value) pairs
    §3  `groupby_reduce` returns exactly these labels (every plan), and the labels discovered at compute time obey the
        same contract
    §4  the VALUES do not depend on `sort`: eager (definitionally), blockwise and cohorts (which concatenate per-block /
        per-cohort outputs and reorder them afterwards), map-reduce

  Names: `FloxProofs/LabelOrder.lean` already uses the namespace `Flox.C16` for the underlying lemmas
  (`factorizeLabels_*`); the property theorems below have different names and restate them in full.

  Vocabulary: `factorizeLabels labels expected sort : List Rat × List Int` (returned labels, one code per element;
  labels are `Option Rat`, `none` = NaN / missing); `uniqFirst` = `pd.unique` (order of first appearance);
  `presentKeys labels` = the non-missing labels with repetitions; `Grp.membersK κ labels vals` = the values whose label
  is `κ`, in array order; `Grp.foundOf sort keys` = the labels discovered at compute time.
  Property theorems only (helper lemmas live in FloxProofs).
-/
import FloxProofs.LabelOrder
import FloxProofs.LabelOrderMembers
import FloxProofs.SpecLemmas
import FloxProofs.Blockwise
import FloxProofs.Cohorts
import FloxProofs.EndToEndSparse
import FloxProofs.Grouped
import FloxProofs.BlockwiseExamples
import FloxProofs.CohortsExamples

namespace Flox.C16

/-! ## §1 the returned labels -/

/-- `sort=True` with a duplicate-free `expected_groups = ex`: the returned labels are STRICTLY ASCENDING (hence
    duplicate-free) and a rearrangement of `ex`.  Duplicate-freeness of `ex` is necessary for "strictly"
    (`sorted_expected_needs_nodup`; flox rejects duplicated expected groups upstream). -/
theorem labels_sorted_expected (labels : List Key) (ex : List Rat) (hnd : ex.Nodup) :
    (factorizeLabels labels (some ex) true).1.Pairwise (· < ·)
    ∧ (factorizeLabels labels (some ex) true).1.Perm ex :=
  factorizeLabels_sorted_expected labels ex hnd

/-- `sort=True` without `expected_groups`: the returned labels are strictly ascending and are exactly the distinct
    non-missing labels of the data -/
theorem labels_sorted_found (labels : List Key) :
    (factorizeLabels labels none true).1.Pairwise (· < ·)
    ∧ ∀ r, r ∈ (factorizeLabels labels none true).1 ↔ some r ∈ labels :=
  factorizeLabels_sorted_found labels

/-- `sort=False` with `expected_groups = ex`: the returned labels are `ex` AS GIVEN -/
theorem labels_unsorted_expected (labels : List Key) (ex : List Rat) :
    (factorizeLabels labels (some ex) false).1 = ex :=
  factorizeLabels_unsorted_expected labels ex

/-- `sort=False` without `expected_groups` (in-memory labels): the distinct non-missing labels in ORDER OF FIRST
    APPEARANCE, duplicate-free, none lost -/
theorem labels_unsorted_found (labels : List Key) :
    (factorizeLabels labels none false).1 = uniqFirst (presentKeys labels)
    ∧ (factorizeLabels labels none false).1.Nodup
    ∧ ∀ r, r ∈ (factorizeLabels labels none false).1 ↔ some r ∈ labels :=
  factorizeLabels_unsorted_found labels

/-- what "order of first appearance" means: `uniqFirst` is determined by these two equations – the head comes first,
    then the distinct elements of the rest that differ from it, again in order of first appearance -/
theorem first_appearance_order (x : Rat) (xs : List Rat) :
    uniqFirst [] = [] ∧ uniqFirst (x :: xs) = x :: uniqFirst (xs.filter (· ≠ x)) :=
  ⟨uniqFirst_nil, uniqFirst_cons x xs⟩

/-- `sort` only rearranges the returned labels (same members; a permutation) -/
theorem sort_only_rearranges (labels : List Key) (expected : Option (List Rat)) :
    (factorizeLabels labels expected true).1.Perm (factorizeLabels labels expected false).1 :=
  factorizeLabels_sort_perm labels expected

/-- without `expected_groups` no non-missing label of the data is lost, in either order -/
theorem found_labels_complete (labels : List Key) (sort : Bool) (r : Rat) (h : some r ∈ labels) :
    r ∈ (factorizeLabels labels none sort).1 :=
  factorizeLabels_found_complete labels sort r h

/-- **duplicate-freeness of `expected_groups` is necessary** for the strictly-ascending claim -/
theorem sorted_expected_needs_nodup :
    ¬ ([2, 1, 2] : List Rat).Nodup ∧ ¬ ([1, 2, 2] : List Rat).Pairwise (· < ·)
    ∧ (([2, 1, 2] : List Rat).mergeSort fun a b => decide (a ≤ b)).Perm [1, 2, 2] :=
  sorted_expected_counterexample

/-! ## §2 codes are positions: the label → value mapping -/

/-- every element is coded with the position of ITS OWN label in the returned list; the code is `-1` exactly for
    missing labels and labels that are not in the list (all four cases) -/
theorem codes_point_at_own_label (labels : List Key) (expected : Option (List Rat)) (sort : Bool) (i : Nat)
    (hi : i < labels.length) :
    ∃ hc : i < (factorizeLabels labels expected sort).2.length,
      (∀ j : Nat, (factorizeLabels labels expected sort).2[i] = (j : Int) →
        (factorizeLabels labels expected sort).1[j]? = labels[i] ∧ labels[i] ≠ none)
      ∧ ((factorizeLabels labels expected sort).2[i] = -1 ↔
          (labels[i] = none ∨ ∃ r, labels[i] = some r ∧ r ∉ (factorizeLabels labels expected sort).1)) :=
  factorizeLabels_decode labels expected sort i hi

/-- **slot `j` holds the group of the `j`-th returned label.**  The member list every plan reduces for slot `j`
    (`members j codes vals`, see C01/C02/C05) is the list of values whose label is the `j`-th returned label, in
    array order – for either value of `sort`, with or without `expected_groups` (duplicate-free if given). -/
theorem slot_members_are_label_members (labels : List Key) (expected : Option (List Rat)) (sort : Bool)
    (hnd : ∀ ex, expected = some ex → ex.Nodup) (vals : List Val) (j : Nat)
    (hj : j < (factorizeLabels labels expected sort).1.length) :
    members (Int.ofNat j) (factorizeLabels labels expected sort).2 vals
      = Grp.membersK (some (factorizeLabels labels expected sort).1[j]) labels vals :=
  factorizeLabels_members labels expected sort hnd vals j hj

/-- **the mapping never changes**: if label `r` sits at position `j` of the sorted result and at position `j'` of the
    unsorted one, both slots reduce the same member list – so any plan that returns `Spec.reduce` (C05) attaches the
    same value to `r` under `sort=True` and `sort=False` -/
theorem mapping_independent_of_sort (labels : List Key) (expected : Option (List Rat))
    (hnd : ∀ ex, expected = some ex → ex.Nodup) (vals : List Val) (r : Rat) (j j' : Nat)
    (hj : j < (factorizeLabels labels expected true).1.length)
    (hj' : j' < (factorizeLabels labels expected false).1.length)
    (hr : (factorizeLabels labels expected true).1[j] = r) (hr' : (factorizeLabels labels expected false).1[j'] = r) :
    members (Int.ofNat j) (factorizeLabels labels expected true).2 vals
      = members (Int.ofNat j') (factorizeLabels labels expected false).2 vals := by
  rw [factorizeLabels_members labels expected true hnd vals j hj,
    factorizeLabels_members labels expected false hnd vals j' hj', hr, hr']

/-! ## §3 what `groupby_reduce` returns -/

/-- **every plan returns exactly the factorised labels** (labels known when the graph is built): for every registry
    table, request, plan, chunking and input on which the entry point `run` succeeds -/
theorem returned_labels (rows : List InitRow) (rq : Request) (plan : Plan) (chunks : List Nat) (labels : List Key)
    (vals : List Val) (gs : List Key) (vs : List Val) (hknown : rq.known = true)
    (h : run rows rq plan chunks labels vals = .ok gs vs) :
    gs = (factorizeLabels labels rq.expected rq.sort).1.map some :=
  SpecL.run_groups rows rq plan chunks labels vals gs vs hknown h

/-- labels discovered at compute time (chunked labels, no `expected_groups`): strictly ascending for `sort=True`;
    duplicate-free and exactly the non-missing labels in both modes; and equal to what eager factorisation returns -/
theorem discovered_labels (keys : List Key) (sort : Bool) :
    (Grp.foundOf true keys).Pairwise (· < ·)
    ∧ (Grp.foundOf sort keys).Nodup ∧ (∀ r, r ∈ Grp.foundOf sort keys ↔ some r ∈ keys)
    ∧ (factorizeLabels keys none sort).1 = Grp.foundOf sort keys := by
  refine ⟨Grp.foundOf_sorted keys, (Grp.foundOf_spec sort keys).1, (Grp.foundOf_spec sort keys).2, ?_⟩
  simp only [factorizeLabels]
  rw [Grp.factorizeKeys_none]

/-! ## §4 the values do not depend on `sort` -/

/-- **eager**: once labels are factorised, `sort` is not even looked at (every blueprint, engine, input) -/
theorem eager_sort_irrelevant (c : Call) (b : Bool) (floatData : Bool) (chunks : List Nat) (keys : List Key)
    (vals : List Val) :
    runKnown { c with sort := b } .eager floatData chunks keys vals = runKnown c .eager floatData chunks keys vals :=
  BW.eager_sort_irrelevant c b floatData chunks keys vals

/-- **blockwise** concatenates per-block outputs and argsorts labels and values together when `sort=True`: the result
    depends neither on `sort` nor on the chunking (hypotheses as in `C02.blockwise_eq_spec`) -/
theorem blockwise_chunking_sort_irrelevant (R : Resolved) (s : Shape) (c₁ c₂ : Call) (n : Nat) (floatData : Bool)
    (chunks₁ chunks₂ : List Nat) (codes : List Int) (vals : List Val)
    (hR₁ : c₁.R = R) (heng₁ : c₁.eng = .npg) (hn₁ : c₁.ngroups = n) (hknown₁ : c₁.knownLabels = true)
    (hR₂ : c₂.R = R) (heng₂ : c₂.eng = .npg) (hn₂ : c₂.ngroups = n) (hknown₂ : c₂.knownLabels = true)
    (hshape : R.shape? = some s) (hcodes : CodesOK codes n) (hlen : codes.length = vals.length)
    (hsum₁ : chunks₁.sum = codes.length) (hpos₁ : ∀ k ∈ chunks₁, 0 < k)
    (hone₁ : BW.EachLabelInOneBlock chunks₁ codes)
    (hsum₂ : chunks₂.sum = codes.length) (hpos₂ : ∀ k ∈ chunks₂, 0 < k)
    (hone₂ : BW.EachLabelInOneBlock chunks₂ codes)
    (hfill₁ : c₁.fillArg = R.userFill) (hfill₂ : c₂.fillArg = R.userFill) (H_allnan : HAllNaN R s)
    (H_dropped₁ : BW.HDropped R (segsOf chunks₁ codes vals)) (H_dropped₂ : BW.HDropped R (segsOf chunks₂ codes vals))
    (H_somelabel : BW.HSomeLabel R codes n) :
    runKnown c₁ (.blockwise false) floatData chunks₁ (codeKeys codes) vals
      = runKnown c₂ (.blockwise false) floatData chunks₂ (codeKeys codes) vals :=
  BW.blockwise_chunking_sort_irrelevant R s c₁ c₂ n floatData chunks₁ chunks₂ codes vals hR₁ heng₁ hn₁ hknown₁ hR₂
    heng₂ hn₂ hknown₂ hshape hcodes hlen hsum₁ hpos₁ hone₁ hsum₂ hpos₂ hone₂ hfill₁ hfill₂ H_allnan H_dropped₁
    H_dropped₂ H_somelabel

/-- **cohorts** concatenates per-cohort outputs (cohorts in dict order, labels in any order inside a cohort) and
    reorders afterwards: the result depends neither on `sort` nor on the cohort structure (hypotheses as in
    `C02.cohorts_eq_spec`; `c₁.sort`, `c₂.sort` are free) -/
theorem cohorts_structure_sort_irrelevant (R : Resolved) (s : Shape) (c₁ c₂ : Call) (n : Nat) (floatData : Bool)
    (chunks₁ chunks₂ : List Nat) (codes : List Int) (vals : List Val) (cs₁ cs₂ : List (List Nat × List Rat))
    (hR₁ : c₁.R = R) (heng₁ : c₁.eng = .npg) (hn₁ : c₁.ngroups = n) (hknown₁ : c₁.knownLabels = true)
    (hR₂ : c₂.R = R) (heng₂ : c₂.eng = .npg) (hn₂ : c₂.ngroups = n) (hknown₂ : c₂.knownLabels = true)
    (hshape : R.shape? = some s) (hlen : codes.length = vals.length)
    (hsound₁ : CohortsSound chunks₁ codes n cs₁) (hsound₂ : CohortsSound chunks₂ codes n cs₂)
    (H_absent₁ : ∀ co ∈ cs₁, ∀ g : Nat, ((g : Nat) : Rat) ∈ co.2 → HAbsent R (members (Int.ofNat g) codes vals))
    (H_absent₂ : ∀ co ∈ cs₂, ∀ g : Nat, ((g : Nat) : Rat) ∈ co.2 → HAbsent R (members (Int.ofNat g) codes vals))
    (H_minmax : HMinMax R s)
    (H_fill₁ : HCohortFill c₁ R n cs₁) (H_fill₂ : HCohortFill c₂ R n cs₂)
    (hsum₁ : chunks₁.sum = codes.length) (hsum₂ : chunks₂.sum = codes.length)
    (hcombine₁ : useGroupedCombine c₁ floatData = false) (hcombine₂ : useGroupedCombine c₂ floatData = false) :
    runKnown c₁ (.cohorts cs₁) floatData chunks₁ (codeKeys codes) vals
      = runKnown c₂ (.cohorts cs₂) floatData chunks₂ (codeKeys codes) vals :=
  Flox.cohorts_structure_irrelevant R s c₁ c₂ n floatData chunks₁ chunks₂ codes vals cs₁ cs₂ hR₁ heng₁ hn₁ hknown₁
    hR₂ heng₂ hn₂ hknown₂ hshape hlen hsound₁ hsound₂ H_absent₁ H_absent₂ H_minmax H_fill₁ H_fill₂ hsum₁ hsum₂
    hcombine₁ hcombine₂

/-- **map-reduce, `reindex=False`**: inside the blocks the groups are sorted or in order of first appearance
    according to `sort`; the result does not depend on it -/
theorem mapreduce_sparse_sort_irrelevant (R : Resolved) (s : Shape) (c : Call) (b : Bool) (n : Nat)
    (floatData : Bool) (chunks : List Nat) (codes : List Int) (vals : List Val)
    (hR : c.R = R) (heng : c.eng = .npg) (hn : c.ngroups = n) (hknown : c.knownLabels = true)
    (hshape : R.shape? = some s) (hcodes : CodesOK codes n) (hlen : codes.length = vals.length)
    (H_dropped : HDropped R n codes vals) (H_minmax : HMinMax R s)
    (hsum : chunks.sum = codes.length)
    (hcombine : useGroupedCombine c floatData = false) :
    runKnown { c with sort := b } (.mapreduce false) floatData chunks (codeKeys codes) vals
      = runKnown c (.mapreduce false) floatData chunks (codeKeys codes) vals :=
  Flox.mapreduce_sparse_chunking_tree_irrelevant R s { c with sort := b } c n floatData chunks chunks codes vals
    hR heng hn hknown hR heng hn hknown hshape hcodes hlen H_dropped H_minmax hsum hsum hcombine hcombine

/-! ### non-vacuity -/

/-- labels `3, NaN, 1, 3, 2`: all four cases, evaluated -/
example : factorizeLabels exLabels none false = ([3, 1, 2], [0, -1, 1, 0, 2])
    ∧ factorizeLabels exLabels none true = ([1, 2, 3], [2, -1, 0, 2, 1])
    ∧ factorizeLabels exLabels (some [2, 7, 3]) false = ([2, 7, 3], [2, -1, -1, 2, 0]) := by decide +kernel

/-- `mapping_independent_of_sort` on these labels: label 3 is at position 2 (sorted) and 0 (first appearance); both
    slots hold the values at array positions 0 and 3 -/
example : members 2 (factorizeLabels exLabels none true).2 [.fin 10, .fin 20, .fin 30, .fin 40, .fin 50]
      = [.fin 10, .fin 40]
    ∧ members 0 (factorizeLabels exLabels none false).2 [.fin 10, .fin 20, .fin 30, .fin 40, .fin 50]
      = [.fin 10, .fin 40] := by decide +kernel

open E2E BWEx in
/-- blockwise, `sort=True` vs `sort=False`, same values -/
example : runKnown (mk Rnanmean .npg true 4) (.blockwise false) true chunksA (codeKeys codesA) valsA
    = runKnown (mk Rnanmean .npg false 4) (.blockwise false) true chunksA (codeKeys codesA) valsA :=
  blockwise_chunking_sort_irrelevant Rnanmean (.mean true) (mk Rnanmean .npg true 4) (mk Rnanmean .npg false 4) 4 true
    chunksA chunksA codesA valsA rfl rfl rfl rfl rfl rfl rfl rfl (by decide +kernel) (by decide +kernel) rfl
    rfl (by decide) (by decide +kernel) rfl (by decide) (by decide +kernel) rfl rfl (by decide +kernel)
    (by decide +kernel) (by decide +kernel) (by decide +kernel)

open E2E BWEx in
example : runKnown (mk Rnanmean .npg false 4) (.blockwise false) true chunksA (codeKeys codesA) valsA
    = .ok [Val.fin 2, Val.fin (-1), Val.fin 5, Val.fin (-1)] := by decide +kernel

end Flox.C16
