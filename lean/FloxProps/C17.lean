/-
  C17 — rechunking helpers keep the chunk structure valid and establish their alignment postconditions.

  Model   : `Flox.Rechunk.optimal` (= `_get_optimal_chunks_for_groups`), `blockwise` (= factorise + optimal, the chunk
            computation of `rechunk_for_blockwise`), `cohorts` (= the division loop of `rechunk_for_cohorts`).
  Spec    : `ValidChunks`, `NoStraddle`, `OneBlockPerLabel`, `ForcedStart`, `KeepsOld`, `Contiguous` (FloxModel/Rechunk.lean,
            last section; written from the property text).
  All theorems hold for every label vector / chunking / hint (induction over the lists, no size bound).
  "Same shape, dtype and values, other axes untouched" is a statement about dask's `Array.rechunk` / xarray's
  `copy(data=…)`, which are not modelled: it is checked by execution in the harness (harness/props_rechunk.py).
-/
import FloxProofs.Rechunk

namespace Flox.C17
open Flox.Rechunk

/-! ### `_get_optimal_chunks_for_groups` / `rechunk_for_blockwise` -/

/-- for ANY label codes: the new chunks are positive and sum to the axis length -/
theorem optimal_valid (chunks labels : List Nat) (hv : ValidChunks labels.length chunks) :
    ValidChunks labels.length (optimal chunks labels) :=
  (optimal_struct chunks labels hv).1

/-- sequential labels (each label one contiguous run – not even required to be ascending): no group straddles a
    boundary of the new chunks -/
theorem optimal_no_straddle (chunks labels : List Nat) (hv : ValidChunks labels.length chunks)
    (hseq : Contiguous labels) : NoStraddle labels (optimal chunks labels) :=
  (optimal_contiguous chunks labels hv hseq).2

/-- the same through the factorisation done by `rechunk_for_blockwise` (raw integer labels, `none` = NaN) -/
theorem blockwise_valid (chunks : List Nat) (raw : List (Option Int)) (hv : ValidChunks raw.length chunks) :
    ValidChunks raw.length (blockwise chunks raw) := by
  have hlen : (factorize raw).length = raw.length := by simp [factorize]
  have := optimal_valid chunks (factorize raw) (by rw [hlen]; exact hv)
  rw [hlen] at this
  exact this

theorem blockwise_no_straddle (chunks : List Nat) (raw : List (Option Int)) (hv : ValidChunks raw.length chunks)
    (hseq : Contiguous raw) : NoStraddle raw (blockwise chunks raw) :=
  (blockwise_contiguous chunks raw hv hseq).2

/-- what `method="blockwise"` relies on: after the rechunk every label lives in exactly one block, so the per-block
    grouped reductions see whole groups (the blocks are `splitBy newchunks labels`) -/
theorem blockwise_one_block_per_label (chunks : List Nat) (raw : List (Option Int))
    (hv : ValidChunks raw.length chunks) (hseq : Contiguous raw) :
    OneBlockPerLabel raw (blockwise chunks raw) :=
  noStraddle_oneBlock raw _ (blockwise_no_straddle chunks raw hv hseq)

/-- composition with the blockwise plan (C02): chunk the codes and the values by the new chunks; then for every group `g`
    the global member list (original order) is the concatenation of the per-block member lists, and at most one block
    has any member of `g` – so that block's kernel sees exactly the members the eager computation sees, and no other
    block reports the group (no duplicated, partial groups) -/
theorem blockwise_after_rechunk_exact (g : Int) (chunks : List Nat) (codes : List Int) (vals : List Val)
    (hlen : codes.length = vals.length) (hv : ValidChunks codes.length chunks) (hseq : Contiguous codes) :
    members g codes vals = (blockMembers g (blockwise chunks (codes.map some)) codes vals).flatten ∧
      (blockMembers g (blockwise chunks (codes.map some)) codes vals).Pairwise (fun a b => a ≠ [] → b = []) := by
  have hvalid := blockwise_valid chunks (codes.map some) (by simpa using hv)
  exact ⟨members_eq_flatten_blocks g _ codes vals hlen (by simpa using hvalid.2),
         blockMembers_at_most_one g _ codes vals (oneBlock_after_blockwise chunks codes hv hseq)⟩

example : blockMembers 1 (blockwise [2, 2, 1] ([0, 0, 0, 1, 1].map some)) [0, 0, 0, 1, 1]
    [Val.fin 1, Val.fin 2, Val.fin 3, Val.fin 4, Val.fin 5] = [[], [Val.fin 4, Val.fin 5]] := by decide +kernel

/-- the hypothesis `Contiguous` is necessary: on non-sequential labels the helper leaves a group split over two
    blocks (flox documents "this only works when the groups are sequential") -/
theorem no_straddle_needs_sequential_counterexample :
    ValidChunks 4 [2, 2] ∧ ¬ Contiguous [0, 1, 0, 1] ∧ optimal [2, 2] [0, 1, 0, 1] = [1, 3] ∧
      ¬ NoStraddle [0, 1, 0, 1] (optimal [2, 2] [0, 1, 0, 1]) := by
  refine ⟨by decide, by decide +kernel, by decide +kernel, by decide +kernel⟩

example : ValidChunks 6 [2, 2, 2] ∧ Contiguous ([0, 0, 0, 0, 1, 1] : List Nat) ∧ optimal [2, 2, 2] [0, 0, 0, 0, 1, 1] = [4, 2] := by
  refine ⟨by decide, by decide +kernel, by decide +kernel⟩

example : Contiguous ([some 7, some 7, none, none, some (-2)] : List (Option Int)) ∧
    blockwise [1, 3, 1] [some 7, some 7, none, none, some (-2)] = [2, 2, 1] ∧
    OneBlockPerLabel ([some 7, some 7, none, none, some (-2)] : List (Option Int)) [2, 2, 1] := by
  refine ⟨by decide +kernel, by decide +kernel, by decide +kernel⟩

/-! ### `rechunk_for_cohorts` -/

/-- whenever the helper returns: positive chunks summing to the axis length -/
theorem cohorts_valid (old : List Nat) (labels forced : List Int) (cs : Option Nat) (ign : Bool) (new : List Nat)
    (h : cohorts old labels forced cs ign = .ok new) : ValidChunks labels.length new :=
  (cohorts_ok old labels forced cs ign new h).1

/-- position 0 and every occurrence of a forced label start a chunk -/
theorem cohorts_forced_start (old : List Nat) (labels forced : List Int) (cs : Option Nat) (ign : Bool)
    (new : List Nat) (h : cohorts old labels forced cs ign = .ok new) : ForcedStart labels forced new :=
  (cohorts_ok old labels forced cs ign new h).2.1

/-- unless told to ignore them, every old chunk boundary is kept -/
theorem cohorts_keeps_old (old : List Nat) (labels forced : List Int) (cs : Option Nat) (new : List Nat)
    (h : cohorts old labels forced cs false = .ok new) : KeepsOld old new :=
  (cohorts_ok old labels forced cs false new h).2.2 rfl

/-- the helper returns exactly when the labels have the axis length and some forced label occurs (otherwise one of the
    two `ValueError`s) -/
theorem cohorts_returns_iff (old : List Nat) (labels forced : List Int) (cs : Option Nat) (ign : Bool) :
    (∃ new, cohorts old labels forced cs ign = .ok new) ↔ (labels.length = old.sum ∧ ∃ l ∈ labels, l ∈ forced) :=
  cohorts_refusal old labels forced cs ign

/-- with `ignore_old_chunks=True` old boundaries may indeed disappear (the "unless" of the property is real) -/
theorem cohorts_ignore_old_counterexample :
    cohorts [2, 2] [1, 2, 3, 4] [1] (some 4) true = .ok [4] ∧ ¬ KeepsOld [2, 2] [4] := by
  exact ⟨rfl, by decide +kernel⟩

example : cohorts [4, 4, 2] [1, 2, 3, 1, 2, 3, 4, 1, 2, 3] [1] (some 3) false = .ok [3, 1, 3, 1, 2] := rfl
example : ForcedStart ([1, 2, 3, 1, 2, 3, 4, 1, 2, 3] : List Int) [1] [3, 1, 3, 1, 2] ∧ KeepsOld [4, 4, 2] [3, 1, 3, 1, 2] := by
  constructor <;> decide +kernel

/-! ### the driver evaluates the specification itself -/

/-- `rechunk-spec` prints `decide` of `ValidChunks`, `NoStraddle`, `ForcedStart`, `KeepsOld`; for the two predicates that
    quantify over unbounded indices it uses linear-time Boolean functions, which decide exactly the predicates above -/
theorem spec_contiguous_executable (labels : List (Option Int)) : contiguousB labels = true ↔ Contiguous labels :=
  contiguousB_iff labels

theorem spec_one_block_executable (labels : List (Option Int)) (chunks : List Nat) :
    oneBlockB labels chunks = true ↔ OneBlockPerLabel labels chunks :=
  oneBlockB_iff labels chunks

end Flox.C17
