/-
  C20 — numeric fidelity: infinities are data, not missing; var / std agree between eager and chunked evaluation.

  SCOPE – READ THIS FIRST.  The model computes in `Val` = exact rationals + NaN + ±inf with IEEE-754 rules for the
  special values.  Therefore
    * ROUNDING IS NOT MODELLED.  "var/std of well-conditioned data agree to floating-point accuracy" is proved here
      only in its exact-arithmetic form (the one-pass formula EQUALS the two-pass one, §3); cancellation in
      `sumsq - sum²/n` on ill-conditioned float data is outside the model and is observed by the harness only.
    * INTEGER WRAP-AROUND IS NOT MODELLED.  `Val` has no machine widths; that sums / products are accumulated in the
      advertised result dtype on every engine is observed by the harness only (the dtype columns of the
      `_initialize_aggregation` table are regenerated from the live code but no theorem speaks about overflow).
  What IS proved, for all inputs:
    §1  `nanmax` / `nanmin` (`max` / `min`) of a group whose true extreme is ±inf is ±inf – in NumPy's kernels, and in
        EVERY engine (flox's own sort + `reduceat` code with its ±inf substitute for NaN, numpy_groupies, numbagg)
    §2  the same through the chunked pipeline, although the intermediate fill of `nanmax` is `-inf` (the sentinel does
        not collide with a legitimate infinity: absent blocks are neutral, and "no valid member" is decided by the
        count column, not by comparing with the sentinel)
    §3  var / std: one-pass finalizer = two-pass `np.var(ddof)`; both NaN as soon as a member is non-finite

  Property theorems only (helper lemmas live in FloxProofs; `FloxProofs/Infinities.lean` for §1/§2).
-/
import FloxProofs.Infinities
import FloxProofs.Finalize
import FloxProofs.Columns

namespace Flox.C20

/-! ## §1 infinities in the kernels and in every engine -/

/-- **flox's own engine, `nanmax` / `nanmin`** (`_nan_grouped_op`: NaN replaced by ∓inf, `maximum.reduceat` on the
    stably sorted array, all-NaN groups detected afterwards): every slot is the block value of the group's members in
    original order – `C01.floxEngine_eq_blockVal` specialised.  `blockVal k fill ms` is `fill` for a group without
    members or without valid members, NumPy's `nanmax` / `nanmin` otherwise. -/
theorem floxEngine_nanminmax_eq_blockVal (k : Kernel) (hk : k = .nanmax ∨ k = .nanmin)
    (codes : List Int) (vals : List Val) (size : Nat) (fill : Val) (hlen : codes.length = vals.length) :
    EngineFlox.run? k codes vals size fill
      = some ((List.range size).map fun (g : Nat) => blockVal k fill (members (Int.ofNat g) codes vals)) :=
  Flox.floxEngine_eq_blockVal k (by rcases hk with rfl | rfl <;> simp) codes vals size fill hlen

/-- **every engine** (`eng ∈ {npg, flox, numbagg}`) returns NumPy's `nanmax` / `nanmin` of the members for every group
    that has at least one valid (non-NaN) member – whatever the fill, whatever else is in the array -/
theorem every_engine_nanminmax (eng : Eng) (k : Kernel) (hk : k = .nanmax ∨ k = .nanmin) (codes : List Int)
    (vals : List Val) (size : Nat) (fill : Val) (hlen : codes.length = vals.length) (g : Nat) (hg : g < size)
    (hvalid : dropNaN (members (Int.ofNat g) codes vals) ≠ []) :
    (engGrouped eng k codes vals size fill)[g]? = some (kEval k (members (Int.ofNat g) codes vals)) :=
  Inf.engGrouped_nanminmax_slot eng k hk codes vals size fill hlen g hg hvalid

/-- NumPy's `nanmax` of members that include `+inf` is `+inf` (NaN members are skipped, not confused with it) -/
theorem nanmax_keeps_pinf (ms : List Val) (h : Val.pinf ∈ ms) : kEval .nanmax ms = Val.pinf :=
  Inf.kEval_nanmax_pinf ms h

/-- NumPy's `nanmax` of members whose only valid values are `-inf` is `-inf` – not NaN, not the fill -/
theorem nanmax_only_ninf (ms : List Val) (h : Val.ninf ∈ ms) (hall : ∀ x ∈ ms, x = Val.ninf ∨ x = Val.nan) :
    kEval .nanmax ms = Val.ninf :=
  Inf.kEval_nanmax_only_ninf ms h hall

/-- mirror images for `nanmin` -/
theorem nanmin_keeps_ninf (ms : List Val) (h : Val.ninf ∈ ms) : kEval .nanmin ms = Val.ninf :=
  Inf.kEval_nanmin_ninf ms h

theorem nanmin_only_pinf (ms : List Val) (h : Val.pinf ∈ ms) (hall : ∀ x ∈ ms, x = Val.pinf ∨ x = Val.nan) :
    kEval .nanmin ms = Val.pinf :=
  Inf.kEval_nanmin_only_pinf ms h hall

/-- `max` / `min` (NaN-propagating): on NaN-free members that include `+inf` / `-inf` the result is that infinity -/
theorem max_keeps_pinf (ms : List Val) (hnn : ∀ x ∈ ms, x.isNaN = false) (h : Val.pinf ∈ ms) :
    kEval .max ms = Val.pinf :=
  Inf.kEval_max_pinf ms hnn h

theorem min_keeps_ninf (ms : List Val) (hnn : ∀ x ∈ ms, x.isNaN = false) (h : Val.ninf ∈ ms) :
    kEval .min ms = Val.ninf :=
  Inf.kEval_min_ninf ms hnn h

/-- **every engine: a group whose valid members include `+inf` has `nanmax = +inf`** -/
theorem every_engine_nanmax_pinf (eng : Eng) (codes : List Int) (vals : List Val) (size : Nat) (fill : Val)
    (hlen : codes.length = vals.length) (g : Nat) (hg : g < size)
    (h : Val.pinf ∈ members (Int.ofNat g) codes vals) :
    (engGrouped eng .nanmax codes vals size fill)[g]? = some Val.pinf := by
  rw [Inf.engGrouped_nanminmax_slot eng .nanmax (Or.inl rfl) codes vals size fill hlen g hg
    (Inf.dropNaN_ne_nil h rfl), Inf.kEval_nanmax_pinf _ h]

/-- **every engine: a group whose only valid member(s) are `-inf` has `nanmax = -inf`** (flox's engine substitutes
    `-inf` for NaN before reducing; the substitute does not swallow the genuine `-inf`) -/
theorem every_engine_nanmax_only_ninf (eng : Eng) (codes : List Int) (vals : List Val) (size : Nat) (fill : Val)
    (hlen : codes.length = vals.length) (g : Nat) (hg : g < size)
    (h : Val.ninf ∈ members (Int.ofNat g) codes vals)
    (hall : ∀ x ∈ members (Int.ofNat g) codes vals, x = Val.ninf ∨ x = Val.nan) :
    (engGrouped eng .nanmax codes vals size fill)[g]? = some Val.ninf := by
  rw [Inf.engGrouped_nanminmax_slot eng .nanmax (Or.inl rfl) codes vals size fill hlen g hg
    (Inf.dropNaN_ne_nil h rfl), Inf.kEval_nanmax_only_ninf _ h hall]

/-- the mirror images for `nanmin` -/
theorem every_engine_nanmin_ninf (eng : Eng) (codes : List Int) (vals : List Val) (size : Nat) (fill : Val)
    (hlen : codes.length = vals.length) (g : Nat) (hg : g < size)
    (h : Val.ninf ∈ members (Int.ofNat g) codes vals) :
    (engGrouped eng .nanmin codes vals size fill)[g]? = some Val.ninf := by
  rw [Inf.engGrouped_nanminmax_slot eng .nanmin (Or.inr rfl) codes vals size fill hlen g hg
    (Inf.dropNaN_ne_nil h rfl), Inf.kEval_nanmin_ninf _ h]

theorem every_engine_nanmin_only_pinf (eng : Eng) (codes : List Int) (vals : List Val) (size : Nat) (fill : Val)
    (hlen : codes.length = vals.length) (g : Nat) (hg : g < size)
    (h : Val.pinf ∈ members (Int.ofNat g) codes vals)
    (hall : ∀ x ∈ members (Int.ofNat g) codes vals, x = Val.pinf ∨ x = Val.nan) :
    (engGrouped eng .nanmin codes vals size fill)[g]? = some Val.pinf := by
  rw [Inf.engGrouped_nanminmax_slot eng .nanmin (Or.inr rfl) codes vals size fill hlen g hg
    (Inf.dropNaN_ne_nil h rfl), Inf.kEval_nanmin_only_pinf _ h hall]

/-! ## §2 through the chunked pipeline (intermediate fill `-inf` for `nanmax`) -/

/-- split the group's members into any number of ordered parts (absent and all-NaN parts hold the sentinel `-inf`),
    combine with `nanmax`: if some member is `+inf` the result is `+inf` -/
theorem chunked_nanmax_keeps_pinf (parts : List (List Val)) (h : Val.pinf ∈ parts.flatten) :
    combineVal .nanmax (parts.map (blockVal .nanmax Val.ninf)) = Val.pinf := by
  have hne : parts ≠ [] := by intro e; subst e; simp at h
  rw [Flox.combine_parts .nanmax .nanmax Val.ninf (by decide) parts hne,
    EngineFlox.blockVal_valid _ _ _ (Inf.dropNaN_ne_nil h rfl), Inf.kEval_nanmax_pinf _ h]

/-- … and if the only valid members are `-inf` the result is `-inf`: the genuine value, which here coincides with the
    sentinel – that the group HAS a valid member is recorded by the count column (`H_minmax`: the registry forces
    `min_count ≥ 1` for `nanmax` / `nanmin`), not by comparing with the sentinel -/
theorem chunked_nanmax_only_ninf (parts : List (List Val)) (h : Val.ninf ∈ parts.flatten)
    (hall : ∀ x ∈ parts.flatten, x = Val.ninf ∨ x = Val.nan) :
    combineVal .nanmax (parts.map (blockVal .nanmax Val.ninf)) = Val.ninf
    ∧ combineVal .sum (parts.map (blockVal .nanlen Val.zero)) = kEval .nanlen parts.flatten
    ∧ kEval .nanlen parts.flatten ≠ Val.zero := by
  have hne : parts ≠ [] := by intro e; subst e; simp at h
  have hv := Inf.dropNaN_ne_nil h rfl
  refine ⟨?_, ?_, ?_⟩
  · rw [Flox.combine_parts .nanmax .nanmax Val.ninf (by decide) parts hne,
      EngineFlox.blockVal_valid _ _ _ hv, Inf.kEval_nanmax_only_ninf _ h hall]
  · rw [Flox.combine_parts .nanlen .sum Val.zero (by decide) parts hne, EngineFlox.blockVal_valid _ _ _ hv]
  · show vcount (dropNaN parts.flatten) ≠ Val.zero
    cases hd : dropNaN parts.flatten with
    | nil => exact absurd hd hv
    | cons x xs =>
      simp only [vcount, Val.ofNat, Val.zero, List.length_cons, ne_eq, Val.fin.injEq]
      intro e
      have h1 : ((xs.length + 1 : Nat) : Rat) = ((0 : Nat) : Rat) := by simpa using e
      have := Rat.natCast_inj.mp h1
      omega

theorem chunked_nanmin_keeps_ninf (parts : List (List Val)) (h : Val.ninf ∈ parts.flatten) :
    combineVal .nanmin (parts.map (blockVal .nanmin Val.pinf)) = Val.ninf := by
  have hne : parts ≠ [] := by intro e; subst e; simp at h
  rw [Flox.combine_parts .nanmin .nanmin Val.pinf (by decide) parts hne,
    EngineFlox.blockVal_valid _ _ _ (Inf.dropNaN_ne_nil h rfl), Inf.kEval_nanmin_ninf _ h]

/-! ## §3 var / std (exact arithmetic; `onepass ddof sq s c = (sq - s*s/c) / (c - ddof)`, NaN when `c ≤ ddof`) -/

/-- the one-pass finalizer of the chunked path on the stored (sum of squares, sum, count) EQUALS the two-pass
    `np.var(ddof)` of the eager path, for every member list (empty, with NaN, with ±inf) -/
theorem var_finalize (ddof : Nat) (ms : List Val) :
    onepass ddof (blockVal .sumsq Val.zero ms) (blockVal .sum Val.zero ms) (blockVal .nanlen Val.zero ms)
      = kEval (.var ddof) ms :=
  Flox.var_finalize ddof ms

theorem nanvar_finalize (ddof : Nat) (ms : List Val) :
    onepass ddof (blockVal .nansumsq Val.zero ms) (blockVal .nansum Val.zero ms) (blockVal .nanlen Val.zero ms)
      = kEval (.nanvar ddof) ms :=
  Flox.nanvar_finalize ddof ms

/-- a NaN or ±inf member makes BOTH sides NaN (`Val.isFinite x`: `x` is a rational): infinities are not silently
    turned into large finite variances, and eager and chunked agree on them -/
theorem var_nonfinite (ddof : Nat) (ms : List Val) (h : ∃ x ∈ ms, x.isFinite = false) :
    onepass ddof (blockVal .sumsq Val.zero ms) (blockVal .sum Val.zero ms) (blockVal .nanlen Val.zero ms) = Val.nan
    ∧ kEval (.var ddof) ms = Val.nan :=
  Flox.var_nonfinite ddof ms h

/-- `nanvar`: NaN members are skipped, a ±inf member makes both sides NaN -/
theorem nanvar_nonfinite (ddof : Nat) (ms : List Val) (h : Val.pinf ∈ ms ∨ Val.ninf ∈ ms) :
    onepass ddof (blockVal .nansumsq Val.zero ms) (blockVal .nansum Val.zero ms) (blockVal .nanlen Val.zero ms)
      = Val.nan
    ∧ kEval (.nanvar ddof) ms = Val.nan :=
  Flox.nanvar_nonfinite ddof ms h

/-! ### non-vacuity -/

/-- codes `[1, 0, 1, 0, 2, 2]` (unsorted), group 0 = `[+inf, NaN]`, group 1 = `[-inf, NaN]`… evaluated on all three
    engines: the infinities survive, the all-NaN group 2 gets the fill 7 (numbagg: NaN, its own convention) -/
example :
    engGrouped .flox .nanmax [1, 0, 1, 0, 2, 2] [.ninf, .pinf, .nan, .nan, .nan, .nan] 3 (.fin 7)
      = [.pinf, .ninf, .fin 7]
    ∧ engGrouped .npg .nanmax [1, 0, 1, 0, 2, 2] [.ninf, .pinf, .nan, .nan, .nan, .nan] 3 (.fin 7)
      = [.pinf, .ninf, .fin 7]
    ∧ engGrouped .numbagg .nanmax [1, 0, 1, 0, 2, 2] [.ninf, .pinf, .nan, .nan, .nan, .nan] 3 (.fin 7)
      = [.pinf, .ninf, .nan] := by decide +kernel

/-- `every_engine_nanmax_only_ninf` applies to group 1 of these data -/
example : (engGrouped .flox .nanmax [1, 0, 1, 0, 2, 2] [.ninf, .pinf, .nan, .nan, .nan, .nan] 3 (.fin 7))[1]?
    = some Val.ninf :=
  every_engine_nanmax_only_ninf .flox _ _ 3 (.fin 7) rfl 1 (by decide) (by decide +kernel) (by decide +kernel)

/-- chunked: `[NaN | -inf, NaN | (absent) ]` -/
example : combineVal .nanmax ([[.nan], [.ninf, .nan], []].map (blockVal .nanmax Val.ninf)) = Val.ninf
    ∧ combineVal .sum ([[.nan], [.ninf, .nan], []].map (blockVal .nanlen Val.zero)) = Val.fin 1 := by decide +kernel

/-- var with a `+inf` member: both sides NaN; finite members: a real value on both sides -/
example : onepass 0 (blockVal .sumsq Val.zero [.pinf, .fin (-1)]) (blockVal .sum Val.zero [.pinf, .fin (-1)])
      (blockVal .nanlen Val.zero [.pinf, .fin (-1)]) = Val.nan
    ∧ kEval (.var 0) [.pinf, .fin (-1)] = Val.nan
    ∧ kEval (.var 1) [.fin 1, .fin (-2), .fin 4] = Val.fin 9 := by decide +kernel

end Flox.C20
