/-
  C20 — numeric fidelity: infinities are data, not missing; var / std agree between eager and chunked evaluation.

  SCOPE – READ THIS FIRST.  The model computes in `Val` = exact rationals + NaN + ±inf with IEEE-754 rules for the
  special values.  Therefore
    * ROUNDING IS NOT MODELLED.  "var/std of well-conditioned data agree to floating-point accuracy" is proved here
      only in its exact-arithmetic form (the one-pass formula EQUALS the two-pass one, §3); cancellation in
      `sumsq - sum²/n` on ill-conditioned float data is outside the model and is observed by the harness only.
    * INTEGER WRAP-AROUND is not part of `Val` (no machine widths).  It is modelled separately in
      `FloxModel/IntWidth.lean` (fixed-width two's-complement accumulators: the three eager engines and the chunked
      pipeline for sums / products of integers) and treated in §4; the link from that model to the code is the
      regenerated dtype table (which dtype is handed to the kernels) plus the harness (the `intwidth` driver op is run
      on every integer sum / product case and compared with flox, with and without the cast-first repair).
  What IS proved, for all inputs:
    §1  `nanmax` / `nanmin` (`max` / `min`) of a group whose true extreme is ±inf is ±inf – in NumPy's kernels, and in
        EVERY engine (flox's own sort + `reduceat` code with its ±inf substitute for NaN, numpy_groupies, numbagg)
    §2  the same through the chunked pipeline, although the intermediate fill of `nanmax` is `-inf` (the sentinel does
        not collide with a legitimate infinity: absent blocks are neutral, and "no valid member" is decided by the
        count column, not by comparing with the sentinel)
    §3  var / std: one-pass finalizer = two-pass `np.var(ddof)`; both NaN as soon as a member is non-finite
    §4  integer sums / products: an accumulator of the advertised (64-bit) result dtype that converts its input FIRST
        returns the exact total whenever the total fits the result dtype – on every engine, for every chunking, block
        order and combine tree, whatever the (narrower) input width; accumulating in the input dtype does not
        (`narrow_accumulation_counterexample`, the defect repaired by /repo a3da74f, 73517da)

  Property theorems only (helper lemmas live in FloxProofs; `FloxProofs/Infinities.lean` for §1/§2).
-/
import FloxProofs.Infinities
import FloxProofs.Finalize
import FloxProofs.Columns
import FloxProofs.IntWidthTable

namespace Flox.C20

/-! ## §1 infinities in the kernels and in every engine -/

/-- **flox's own engine, `nanmax` / `nanmin`** (`_nan_grouped_op`: NaN replaced by ∓inf, `maximum.reduceat` on the
    stably sorted array, all-NaN groups detected afterwards): every slot is the block value of the group's members in
    original order – `C01.floxEngine_eq_blockVal` specialised.  `blockVal k fill ms` is `fill` for a group without
    members or without valid members, NumPy's `nanmax` / `nanmin` otherwise. -/
theorem floxEngine_nanminmax_eq_blockVal (k : Kernel) (hk : k = .nanmax ∨ k = .nanmin)
    (codes : List Int) (vals : List Val) (size : Nat) (fill : Val) (hlen : codes.length = vals.length) :
    EngineFlox.run? k codes vals size fill
      = some ((List.range size).map fun (g : Nat) => blockVal k fill (members (Int.ofNat g) codes vals)) :=
  Flox.floxEngine_eq_blockVal k (by rcases hk with rfl | rfl <;> simp) codes vals size fill hlen

/-- **every engine** (`eng ∈ {npg, flox, numbagg}`) returns NumPy's `nanmax` / `nanmin` of the members for every group
    that has at least one valid (non-NaN) member – whatever the fill, whatever else is in the array -/
theorem every_engine_nanminmax (eng : Eng) (k : Kernel) (hk : k = .nanmax ∨ k = .nanmin) (codes : List Int)
    (vals : List Val) (size : Nat) (fill : Val) (hlen : codes.length = vals.length) (g : Nat) (hg : g < size)
    (hvalid : dropNaN (members (Int.ofNat g) codes vals) ≠ []) :
    (engGrouped eng k codes vals size fill)[g]? = some (kEval k (members (Int.ofNat g) codes vals)) :=
  Inf.engGrouped_nanminmax_slot eng k hk codes vals size fill hlen g hg hvalid

/-- NumPy's `nanmax` of members that include `+inf` is `+inf` (NaN members are skipped, not confused with it) -/
theorem nanmax_keeps_pinf (ms : List Val) (h : Val.pinf ∈ ms) : kEval .nanmax ms = Val.pinf :=
  Inf.kEval_nanmax_pinf ms h

/-- NumPy's `nanmax` of members whose only valid values are `-inf` is `-inf` – not NaN, not the fill -/
theorem nanmax_only_ninf (ms : List Val) (h : Val.ninf ∈ ms) (hall : ∀ x ∈ ms, x = Val.ninf ∨ x = Val.nan) :
    kEval .nanmax ms = Val.ninf :=
  Inf.kEval_nanmax_only_ninf ms h hall

/-- mirror images for `nanmin` -/
theorem nanmin_keeps_ninf (ms : List Val) (h : Val.ninf ∈ ms) : kEval .nanmin ms = Val.ninf :=
  Inf.kEval_nanmin_ninf ms h

theorem nanmin_only_pinf (ms : List Val) (h : Val.pinf ∈ ms) (hall : ∀ x ∈ ms, x = Val.pinf ∨ x = Val.nan) :
    kEval .nanmin ms = Val.pinf :=
  Inf.kEval_nanmin_only_pinf ms h hall

/-- `max` / `min` (NaN-propagating): on NaN-free members that include `+inf` / `-inf` the result is that infinity -/
theorem max_keeps_pinf (ms : List Val) (hnn : ∀ x ∈ ms, x.isNaN = false) (h : Val.pinf ∈ ms) :
    kEval .max ms = Val.pinf :=
  Inf.kEval_max_pinf ms hnn h

theorem min_keeps_ninf (ms : List Val) (hnn : ∀ x ∈ ms, x.isNaN = false) (h : Val.ninf ∈ ms) :
    kEval .min ms = Val.ninf :=
  Inf.kEval_min_ninf ms hnn h

/-- **every engine: a group whose valid members include `+inf` has `nanmax = +inf`** -/
theorem every_engine_nanmax_pinf (eng : Eng) (codes : List Int) (vals : List Val) (size : Nat) (fill : Val)
    (hlen : codes.length = vals.length) (g : Nat) (hg : g < size)
    (h : Val.pinf ∈ members (Int.ofNat g) codes vals) :
    (engGrouped eng .nanmax codes vals size fill)[g]? = some Val.pinf := by
  rw [Inf.engGrouped_nanminmax_slot eng .nanmax (Or.inl rfl) codes vals size fill hlen g hg
    (Inf.dropNaN_ne_nil h rfl), Inf.kEval_nanmax_pinf _ h]

/-- **every engine: a group whose only valid member(s) are `-inf` has `nanmax = -inf`** (flox's engine substitutes
    `-inf` for NaN before reducing; the substitute does not swallow the genuine `-inf`) -/
theorem every_engine_nanmax_only_ninf (eng : Eng) (codes : List Int) (vals : List Val) (size : Nat) (fill : Val)
    (hlen : codes.length = vals.length) (g : Nat) (hg : g < size)
    (h : Val.ninf ∈ members (Int.ofNat g) codes vals)
    (hall : ∀ x ∈ members (Int.ofNat g) codes vals, x = Val.ninf ∨ x = Val.nan) :
    (engGrouped eng .nanmax codes vals size fill)[g]? = some Val.ninf := by
  rw [Inf.engGrouped_nanminmax_slot eng .nanmax (Or.inl rfl) codes vals size fill hlen g hg
    (Inf.dropNaN_ne_nil h rfl), Inf.kEval_nanmax_only_ninf _ h hall]

/-- the mirror images for `nanmin` -/
theorem every_engine_nanmin_ninf (eng : Eng) (codes : List Int) (vals : List Val) (size : Nat) (fill : Val)
    (hlen : codes.length = vals.length) (g : Nat) (hg : g < size)
    (h : Val.ninf ∈ members (Int.ofNat g) codes vals) :
    (engGrouped eng .nanmin codes vals size fill)[g]? = some Val.ninf := by
  rw [Inf.engGrouped_nanminmax_slot eng .nanmin (Or.inr rfl) codes vals size fill hlen g hg
    (Inf.dropNaN_ne_nil h rfl), Inf.kEval_nanmin_ninf _ h]

theorem every_engine_nanmin_only_pinf (eng : Eng) (codes : List Int) (vals : List Val) (size : Nat) (fill : Val)
    (hlen : codes.length = vals.length) (g : Nat) (hg : g < size)
    (h : Val.pinf ∈ members (Int.ofNat g) codes vals)
    (hall : ∀ x ∈ members (Int.ofNat g) codes vals, x = Val.pinf ∨ x = Val.nan) :
    (engGrouped eng .nanmin codes vals size fill)[g]? = some Val.pinf := by
  rw [Inf.engGrouped_nanminmax_slot eng .nanmin (Or.inr rfl) codes vals size fill hlen g hg
    (Inf.dropNaN_ne_nil h rfl), Inf.kEval_nanmin_only_pinf _ h hall]

/-! ## §2 through the chunked pipeline (intermediate fill `-inf` for `nanmax`) -/

/-- split the group's members into any number of ordered parts (absent and all-NaN parts hold the sentinel `-inf`),
    combine with `nanmax`: if some member is `+inf` the result is `+inf` -/
theorem chunked_nanmax_keeps_pinf (parts : List (List Val)) (h : Val.pinf ∈ parts.flatten) :
    combineVal .nanmax (parts.map (blockVal .nanmax Val.ninf)) = Val.pinf := by
  have hne : parts ≠ [] := by intro e; subst e; simp at h
  rw [Flox.combine_parts .nanmax .nanmax Val.ninf (by decide) parts hne,
    EngineFlox.blockVal_valid _ _ _ (Inf.dropNaN_ne_nil h rfl), Inf.kEval_nanmax_pinf _ h]

/-- … and if the only valid members are `-inf` the result is `-inf`: the genuine value, which here coincides with the
    sentinel – that the group HAS a valid member is recorded by the count column (`H_minmax`: the registry forces
    `min_count ≥ 1` for `nanmax` / `nanmin`), not by comparing with the sentinel -/
theorem chunked_nanmax_only_ninf (parts : List (List Val)) (h : Val.ninf ∈ parts.flatten)
    (hall : ∀ x ∈ parts.flatten, x = Val.ninf ∨ x = Val.nan) :
    combineVal .nanmax (parts.map (blockVal .nanmax Val.ninf)) = Val.ninf
    ∧ combineVal .sum (parts.map (blockVal .nanlen Val.zero)) = kEval .nanlen parts.flatten
    ∧ kEval .nanlen parts.flatten ≠ Val.zero := by
  have hne : parts ≠ [] := by intro e; subst e; simp at h
  have hv := Inf.dropNaN_ne_nil h rfl
  refine ⟨?_, ?_, ?_⟩
  · rw [Flox.combine_parts .nanmax .nanmax Val.ninf (by decide) parts hne,
      EngineFlox.blockVal_valid _ _ _ hv, Inf.kEval_nanmax_only_ninf _ h hall]
  · rw [Flox.combine_parts .nanlen .sum Val.zero (by decide) parts hne, EngineFlox.blockVal_valid _ _ _ hv]
  · show vcount (dropNaN parts.flatten) ≠ Val.zero
    cases hd : dropNaN parts.flatten with
    | nil => exact absurd hd hv
    | cons x xs =>
      simp only [vcount, Val.ofNat, Val.zero, List.length_cons, ne_eq, Val.fin.injEq]
      intro e
      have h1 : ((xs.length + 1 : Nat) : Rat) = ((0 : Nat) : Rat) := by simpa using e
      have := Rat.natCast_inj.mp h1
      omega

theorem chunked_nanmin_keeps_ninf (parts : List (List Val)) (h : Val.ninf ∈ parts.flatten) :
    combineVal .nanmin (parts.map (blockVal .nanmin Val.pinf)) = Val.ninf := by
  have hne : parts ≠ [] := by intro e; subst e; simp at h
  rw [Flox.combine_parts .nanmin .nanmin Val.pinf (by decide) parts hne,
    EngineFlox.blockVal_valid _ _ _ (Inf.dropNaN_ne_nil h rfl), Inf.kEval_nanmin_ninf _ h]

/-! ## §3 var / std (exact arithmetic; `onepass ddof sq s c = (sq - s*s/c) / (c - ddof)`, NaN when `c ≤ ddof`) -/

/-- the one-pass finalizer of the chunked path on the stored (sum of squares, sum, count) EQUALS the two-pass
    `np.var(ddof)` of the eager path, for every member list (empty, with NaN, with ±inf) -/
theorem var_finalize (ddof : Nat) (ms : List Val) :
    onepass ddof (blockVal .sumsq Val.zero ms) (blockVal .sum Val.zero ms) (blockVal .nanlen Val.zero ms)
      = kEval (.var ddof) ms :=
  Flox.var_finalize ddof ms

theorem nanvar_finalize (ddof : Nat) (ms : List Val) :
    onepass ddof (blockVal .nansumsq Val.zero ms) (blockVal .nansum Val.zero ms) (blockVal .nanlen Val.zero ms)
      = kEval (.nanvar ddof) ms :=
  Flox.nanvar_finalize ddof ms

/-- a NaN or ±inf member makes BOTH sides NaN (`Val.isFinite x`: `x` is a rational): infinities are not silently
    turned into large finite variances, and eager and chunked agree on them -/
theorem var_nonfinite (ddof : Nat) (ms : List Val) (h : ∃ x ∈ ms, x.isFinite = false) :
    onepass ddof (blockVal .sumsq Val.zero ms) (blockVal .sum Val.zero ms) (blockVal .nanlen Val.zero ms) = Val.nan
    ∧ kEval (.var ddof) ms = Val.nan :=
  Flox.var_nonfinite ddof ms h

/-- `nanvar`: NaN members are skipped, a ±inf member makes both sides NaN -/
theorem nanvar_nonfinite (ddof : Nat) (ms : List Val) (h : Val.pinf ∈ ms ∨ Val.ninf ∈ ms) :
    onepass ddof (blockVal .nansumsq Val.zero ms) (blockVal .nansum Val.zero ms) (blockVal .nanlen Val.zero ms)
      = Val.nan
    ∧ kEval (.nanvar ddof) ms = Val.nan :=
  Flox.nanvar_nonfinite ddof ms h

/-! ### non-vacuity -/

/-- codes `[1, 0, 1, 0, 2, 2]` (unsorted), group 0 = `[+inf, NaN]`, group 1 = `[-inf, NaN]`… evaluated on all three
    engines: the infinities survive, the all-NaN group 2 gets the fill 7 (numbagg: NaN, its own convention) -/
example :
    engGrouped .flox .nanmax [1, 0, 1, 0, 2, 2] [.ninf, .pinf, .nan, .nan, .nan, .nan] 3 (.fin 7)
      = [.pinf, .ninf, .fin 7]
    ∧ engGrouped .npg .nanmax [1, 0, 1, 0, 2, 2] [.ninf, .pinf, .nan, .nan, .nan, .nan] 3 (.fin 7)
      = [.pinf, .ninf, .fin 7]
    ∧ engGrouped .numbagg .nanmax [1, 0, 1, 0, 2, 2] [.ninf, .pinf, .nan, .nan, .nan, .nan] 3 (.fin 7)
      = [.pinf, .ninf, .nan] := by decide +kernel

/-- `every_engine_nanmax_only_ninf` applies to group 1 of these data -/
example : (engGrouped .flox .nanmax [1, 0, 1, 0, 2, 2] [.ninf, .pinf, .nan, .nan, .nan, .nan] 3 (.fin 7))[1]?
    = some Val.ninf :=
  every_engine_nanmax_only_ninf .flox _ _ 3 (.fin 7) rfl 1 (by decide) (by decide +kernel) (by decide +kernel)

/-- chunked: `[NaN | -inf, NaN | (absent) ]` -/
example : combineVal .nanmax ([[.nan], [.ninf, .nan], []].map (blockVal .nanmax Val.ninf)) = Val.ninf
    ∧ combineVal .sum ([[.nan], [.ninf, .nan], []].map (blockVal .nanlen Val.zero)) = Val.fin 1 := by decide +kernel

/-- var with a `+inf` member: both sides NaN; finite members: a real value on both sides -/
example : onepass 0 (blockVal .sumsq Val.zero [.pinf, .fin (-1)]) (blockVal .sum Val.zero [.pinf, .fin (-1)])
      (blockVal .nanlen Val.zero [.pinf, .fin (-1)]) = Val.nan
    ∧ kEval (.var 0) [.pinf, .fin (-1)] = Val.nan
    ∧ kEval (.var 1) [.fin 1, .fin (-2), .fin 4] = Val.fin 9 := by decide +kernel

/-! ## §4 integer sums and products never wrap at the input width

  Model (`FloxModel/IntWidth.lean`): `wrapS w` / `wrapU w` reduce an integer into the signed / unsigned `w`-bit range;
  `accW wrap op init xs` is a machine accumulator (wraps after every step); `engineSum castFirst wIn wAcc xs` is one
  eager engine on the members of a group (`castFirst = true`: convert to the `wAcc`-bit accumulation dtype, then
  accumulate – all engines today; `false`: accumulate at the input width `wIn`, convert the result – numbagg before
  /repo a3da74f); `chunkedSum castFirst wIn wAcc t` runs that engine in every block (leaf of `t`) and combines the
  partials by a wrapping `wAcc`-bit accumulation at every inner node of the ARBITRARY tree `t`.  `…U` = unsigned,
  `…Prod` = products.  `absSum xs = Σ|x_i|`, `absProd xs = Π|x_i|`, `inS w x` / `inU w x` = representable.
  `xs.sum` / `xs.prod` are the exact (unbounded) totals. -/

open Flox.IntWidth in
/-- **`accW_exact`** – if every non-empty prefix `xs.take (k + 1)` of the exact fold is representable (`R`), a wrapping accumulator equals
    the exact fold.  `wrap` is ANY function that leaves representable values alone: no assumption on what overflow
    does.  Sums: `op = (· + ·)`, `init = 0`; products: `op = (· * ·)`, `init = 1`. -/
theorem accW_exact (wrap : Int → Int) (R : Int → Prop) (hR : ∀ x, R x → wrap x = x) (op : Int → Int → Int)
    (init : Int) (xs : List Int) (hpre : ∀ k, k < xs.length → R ((xs.take (k + 1)).foldl op init)) :
    accW wrap op init xs = xs.foldl op init :=
  IntWidth.accW_exact wrap R hR op init xs hpre

open Flox.IntWidth in
/-- … for the `w`-bit signed sum and product (the sharper, sequential form of `sum_exact_of_abs_bound`) -/
theorem sum_exact_of_prefix_bound {w : Nat} (hw : 1 ≤ w) (xs : List Int)
    (hpre : ∀ k, k < xs.length → inS w (xs.take (k + 1)).sum) : accW (wrapS w) (· + ·) 0 xs = xs.sum :=
  IntWidth.sum_exact_of_prefix_bound hw xs hpre

open Flox.IntWidth in
theorem prod_exact_of_prefix_bound {w : Nat} (hw : 1 ≤ w) (xs : List Int)
    (hpre : ∀ k, k < xs.length → inS w (xs.take (k + 1)).prod) : accW (wrapS w) (· * ·) 1 xs = xs.prod :=
  IntWidth.prod_exact_of_prefix_bound hw xs hpre

open Flox.IntWidth in
/-- int8 accumulator on `[100, -100, 100, -100, 27]`: `Σ|x| = 427` is far beyond int8 but every prefix fits -/
example : accW (wrapS 8) (· + ·) 0 [100, -100, 100, -100, 27] = 27 :=
  sum_exact_of_prefix_bound (by decide) _ (by decide +kernel)

open Flox.IntWidth in
example : accW (wrapS 8) (· * ·) 1 [5, -5, 5, -1] = 125 := prod_exact_of_prefix_bound (by decide) _ (by decide +kernel)

open Flox.IntWidth in
/-- **`sum_exact_of_abs_bound`** – if `Σ|x_i| < 2^(w-1)` (what "the group total fits the result dtype" gives for data of
    one sign), then EVERY chunking of the members into blocks, every order of members / blocks (`t.leaves` is any
    permutation of `xs`) and every bracketing of the combine tree gives the exact sum – no step of any tree overflows,
    so again nothing is assumed about overflow (`wrapAcc` only has to leave `w`-bit values alone). -/
theorem sum_exact_of_abs_bound {w : Nat} (wrapIn wrapAcc : Int → Int) (hR : ∀ x, inS w x → wrapAcc x = x)
    (xs : List Int) (h : absSum xs < 2 ^ (w - 1)) (t : WTree) (hp : t.leaves.Perm xs) :
    chunkedAcc (· + ·) 0 true wrapIn wrapAcc t = xs.sum :=
  IntWidth.sum_exact_of_abs_bound hR xs h t hp

open Flox.IntWidth in
/-- sharpest form, using that two's complement is arithmetic modulo `2^w`: every engine / chunking / order / tree
    returns `wrapS w (exact total)`, so it suffices that the TOTAL is representable -/
theorem chunkedSum_eq_wrap_total (wIn wAcc : Nat) (t : WTree) :
    chunkedSum true wIn wAcc t = wrapS wAcc t.leaves.sum :=
  IntWidth.chunkedSum_eq_wrap wIn wAcc t

open Flox.IntWidth in
theorem sum_exact_of_total_bound {w : Nat} (hw : 1 ≤ w) (wIn : Nat) (xs : List Int) (h : inS w xs.sum) :
    engineSum true wIn w xs = xs.sum ∧ ∀ t : WTree, t.leaves.Perm xs → chunkedSum true wIn w t = xs.sum :=
  IntWidth.sum_exact_of_total_bound hw wIn xs h

open Flox.IntWidth in
/-- members `[100, 100, 27, -5]` in blocks `[27 | -5, 100 | (absent) | 100]` (reordered), tree `((b0 b1) (b2 b3))`,
    16-bit accumulator: `Σ|x| = 232 < 2^15` -/
example : chunkedAcc (· + ·) 0 true (wrapS 8) (wrapS 16)
      (.node (.cons (.node (.cons (.leaf [27]) (.one (.leaf [-5, 100]))))
        (.one (.node (.cons (.leaf []) (.one (.leaf [100]))))))) = [100, 100, 27, -5].sum :=
  sum_exact_of_abs_bound _ _ (fun _ hx => wrapS_of_inS (by decide) hx) [100, 100, 27, -5] (by decide +kernel) _
    (by decide +kernel)

open Flox.IntWidth in
/-- total `27` representable in int8 although `Σ|x| = 427` is not: still exact on every plan -/
example : engineSum true 8 8 [100, 100, -100, -100, 27] = 27 :=
  (sum_exact_of_total_bound (by decide) 8 [100, 100, -100, -100, 27] (by decide +kernel)).1

open Flox.IntWidth in
/-- **`cast_first_exact`** – inputs representable at `wIn ≤ wAcc`, every prefix sum representable at `wAcc` ⇒ the engine
    that converts before accumulating returns the exact sum (any overflow behaviour of the accumulator) -/
theorem cast_first_exact {wIn wAcc : Nat} (hle : wIn ≤ wAcc) (wrapIn wrapAcc : Int → Int)
    (hR : ∀ x, inS wAcc x → wrapAcc x = x) (xs : List Int) (hin : ∀ x ∈ xs, inS wIn x)
    (hpre : ∀ k, k < xs.length → inS wAcc (xs.take (k + 1)).sum) :
    engineAcc (· + ·) 0 true wrapIn wrapAcc xs = xs.sum :=
  IntWidth.cast_first_exact hle wrapIn wrapAcc hR xs hin hpre

open Flox.IntWidth in
theorem cast_first_prod_exact {wIn wAcc : Nat} (hle : wIn ≤ wAcc) (wrapIn wrapAcc : Int → Int)
    (hR : ∀ x, inS wAcc x → wrapAcc x = x) (xs : List Int) (hin : ∀ x ∈ xs, inS wIn x)
    (hpre : ∀ k, k < xs.length → inS wAcc (xs.take (k + 1)).prod) :
    engineAcc (· * ·) 1 true wrapIn wrapAcc xs = xs.prod :=
  IntWidth.cast_first_prod_exact hle wrapIn wrapAcc hR xs hin hpre

open Flox.IntWidth in
/-- **`cast_first_exact`, every plan**: `Σ|x_i| < 2^(wAcc-1)` ⇒ the eager engine and every chunking / order / tree are
    exact.  The input width `wIn` does not occur in the hypotheses: the sum "never wraps at the narrower width of the
    input". -/
theorem cast_first_exact_all_plans {wAcc : Nat} (hw : 1 ≤ wAcc) (wIn : Nat) (xs : List Int)
    (htot : absSum xs < 2 ^ (wAcc - 1)) :
    engineSum true wIn wAcc xs = xs.sum ∧ ∀ t : WTree, t.leaves.Perm xs → chunkedSum true wIn wAcc t = xs.sum :=
  IntWidth.cast_first_exact_all_plans hw wIn xs htot

open Flox.IntWidth in
/-- mirror for products: `Π|x_i| < 2^(wAcc-1)` -/
theorem cast_first_prod_exact_all_plans {wAcc : Nat} (hw : 2 ≤ wAcc) (wIn : Nat) (xs : List Int)
    (htot : absProd xs < 2 ^ (wAcc - 1)) :
    engineProd true wIn wAcc xs = xs.prod ∧ ∀ t : WTree, t.leaves.Perm xs → chunkedProd true wIn wAcc t = xs.prod :=
  IntWidth.cast_first_prod_exact_all_plans hw wIn xs htot

open Flox.IntWidth in
/-- unsigned mirrors (`uint8 → uint64`): total in `[0, 2^wAcc)` -/
theorem cast_first_exact_all_plans_unsigned (wIn wAcc : Nat) (xs : List Int) (h : inU wAcc xs.sum) :
    engineSumU true wIn wAcc xs = xs.sum ∧ ∀ t : WTree, t.leaves.Perm xs → chunkedSumU true wIn wAcc t = xs.sum :=
  IntWidth.sumU_exact_of_total_bound wIn wAcc xs h

open Flox.IntWidth in
theorem cast_first_prod_exact_all_plans_unsigned {wAcc : Nat} (hw : 1 ≤ wAcc) (wIn : Nat) (xs : List Int)
    (h : inU wAcc xs.prod) :
    engineProdU true wIn wAcc xs = xs.prod ∧
      ∀ t : WTree, t.leaves.Perm xs → chunkedProdU true wIn wAcc t = xs.prod :=
  IntWidth.cast_first_prodU_exact_all_plans hw wIn xs h

open Flox.IntWidth in
/-- int8 data `[120, 119, 120, -120, 60]` (total 299 > 127) accumulated at 64 bits -/
example : engineAcc (· + ·) 0 true (wrapS 8) (wrapS 64) [120, 119, 120, -120, 60] = 299 :=
  cast_first_exact (wIn := 8) (wAcc := 64) (by decide) _ _ (fun _ hx => wrapS_of_inS (by decide) hx) _
    (by decide +kernel) (by decide +kernel)

open Flox.IntWidth in
example : engineSum true 8 64 [120, 119, 120, -120, 60] = 299
    ∧ chunkedSum true 8 64 (.node (.cons (.leaf [120, 120]) (.cons (.leaf [60, -120]) (.one (.leaf [119]))))) = 299 :=
  have h := cast_first_exact_all_plans (wAcc := 64) (by decide) 8 [120, 119, 120, -120, 60] (by decide +kernel)
  ⟨h.1, h.2 _ (by decide +kernel)⟩

open Flox.IntWidth in
/-- int8 data `[7, 5, -3, 7]`: product `-735` -/
example : engineProd true 8 64 [7, 5, -3, 7] = -735
    ∧ chunkedProd true 8 64 (.node (.cons (.leaf [7]) (.one (.leaf [7, -3, 5])))) = -735 :=
  have h := cast_first_prod_exact_all_plans (wAcc := 64) (by decide) 8 [7, 5, -3, 7] (by decide +kernel)
  ⟨h.1, h.2 _ (by decide +kernel)⟩

open Flox.IntWidth in
example : engineAcc (· * ·) 1 true (wrapS 8) (wrapS 64) [7, 5, -3, 7] = -735 :=
  cast_first_prod_exact (wIn := 8) (wAcc := 64) (by decide) _ _ (fun _ hx => wrapS_of_inS (by decide) hx) _
    (by decide +kernel) (by decide +kernel)

open Flox.IntWidth in
/-- uint8 data `[200, 250, 255, 129]` at uint64 -/
example : engineSumU true 8 64 [200, 250, 255, 129] = 834 ∧ engineProdU true 8 64 [200, 250, 255, 129] = 1644750000 :=
  ⟨(cast_first_exact_all_plans_unsigned 8 64 _ (by decide +kernel)).1,
   (cast_first_prod_exact_all_plans_unsigned (by decide) 8 _ (by decide +kernel)).1⟩

open Flox.IntWidth in
/-- **the hypothesis `castFirst` is necessary – the repaired defect.**  numbagg before /repo a3da74f accumulated int8
    `[100, 100]` in int8 and cast the result: `-56` instead of `200`; uint8 `[200, 250, 255, 129]` ↦ `66` instead of
    `834`; int8 product `7·5·5` ↦ `-81` instead of `175`. -/
theorem narrow_accumulation_counterexample :
    engineSum false 8 64 [100, 100] = -56 ∧ engineSum true 8 64 [100, 100] = 200 ∧
    engineSumU false 8 64 [200, 250, 255, 129] = 66 ∧ engineSumU true 8 64 [200, 250, 255, 129] = 834 ∧
    engineProd false 8 64 [7, 5, 5] = -81 ∧ engineProd true 8 64 [7, 5, 5] = 175 :=
  IntWidth.narrow_accumulation_counterexample

open Flox.IntWidth in
/-- … in the chunked pipeline (blocks `[100, 100 | 27]`): a wide combine cannot repair a block that wrapped -/
theorem narrow_accumulation_counterexample_chunked :
    chunkedSum false 8 64 (.node (.cons (.leaf [100, 100]) (.one (.leaf [27])))) = -29 ∧
    chunkedSum true 8 64 (.node (.cons (.leaf [100, 100]) (.one (.leaf [27])))) = 227 :=
  IntWidth.narrow_accumulation_counterexample_chunked

open Flox.IntWidth in
/-- engine "flox" before /repo 73517da squared int8 data in int8 (`100² ≡ 16`) before the wide accumulation -/
theorem narrow_square_counterexample :
    engineSumSq false (wrapS 8) (wrapS 64) [100, 3] = 25 ∧ engineSumSq true (wrapS 8) (wrapS 64) [100, 3] = 10009 :=
  IntWidth.narrow_square_counterexample

/-! ### tie to the regenerated `_initialize_aggregation` table

  `rowAccDtypes f init` = the dtypes in which the row accumulates: `dtype["intermediate"]` of every sum / nansum / prod /
  nanprod / sum_of_squares / nansum_of_squares / nanlen (count) kernel, and `dtype["numpy"][0]` for the accumulating
  reductions.  `intBits? t = some (signed, bits)` for the integer dtypes.  (`C11.intermediates_wide_enough` states the
  width part with `wide`; here also the count kernels and the signedness are checked on the table.) -/

open Flox.IntWidth Flox.Generated in
/-- **every integer accumulation dtype of the table is 64 bits wide** – for every reduction, every integer / bool input
    dtype, every fill, `min_count` and engine (no `dtype=`) -/
theorem table_accumulators_64bit (f : Func) (d : DType) (k : FillK) (mc e : Bool) (init : DInit)
    (hd : d = .bool ∨ d.isInt = true) (h : apiInit dtypeRowsOf f d .unset k mc e = some init) :
    ∀ t ∈ rowAccDtypes f init, ∀ s w, intBits? t = some (s, w) → w = 64 :=
  IntWidth.table_accumulators_64bit f d k mc e init hd h

open Flox.IntWidth Flox.Generated in
/-- **corollary**: in whichever integer dtype a row of the table accumulates, sums and products of integers are exact
    on the eager engines and for every chunking / order / tree as soon as the total fits into 64 bits; the input width
    `wIn` is arbitrary (int8, uint8, int16, …) -/
theorem table_sum_prod_exact (f : Func) (d : DType) (k : FillK) (mc e : Bool) (init : DInit)
    (hd : d = .bool ∨ d.isInt = true) (h : apiInit dtypeRowsOf f d .unset k mc e = some init)
    (t : DType) (ht : t ∈ rowAccDtypes f init) (wIn : Nat) (xs : List Int) :
    (∀ w, intBits? t = some (true, w) →
      (absSum xs < 2 ^ 63 →
        engineSum true wIn w xs = xs.sum ∧ ∀ tr : WTree, tr.leaves.Perm xs → chunkedSum true wIn w tr = xs.sum) ∧
      (absProd xs < 2 ^ 63 →
        engineProd true wIn w xs = xs.prod ∧ ∀ tr : WTree, tr.leaves.Perm xs → chunkedProd true wIn w tr = xs.prod)) ∧
    (∀ w, intBits? t = some (false, w) →
      (inU 64 xs.sum →
        engineSumU true wIn w xs = xs.sum ∧ ∀ tr : WTree, tr.leaves.Perm xs → chunkedSumU true wIn w tr = xs.sum) ∧
      (inU 64 xs.prod →
        engineProdU true wIn w xs = xs.prod ∧
          ∀ tr : WTree, tr.leaves.Perm xs → chunkedProdU true wIn w tr = xs.prod)) :=
  IntWidth.table_sum_prod_exact f d k mc e init hd h t ht wIn xs

open Flox.IntWidth Flox.Generated in
/-- the rows the harness stream exercises: int8 `nansum` (chunk kernel and eager kernel in int64), uint8 `prod`
    (uint64), int16 `count` (int64), int8 `nanvar` (float64 sums of squares: no integer accumulator at all) -/
example :
    (apiInit dtypeRowsOf .nansum .i8 .unset .unset false false).map (rowAccDtypes .nansum) = some [.i64, .i64]
    ∧ (apiInit dtypeRowsOf .prod .u8 .unset .zero true false).map (rowAccDtypes .prod) = some [.u64, .i64, .u64]
    ∧ (apiInit dtypeRowsOf .count .i16 .unset .unset false false).map (rowAccDtypes .count) = some [.i64]
    ∧ (apiInit dtypeRowsOf .nanvar .i8 .unset .unset false false).map (rowAccDtypes .nanvar) = some [.f64, .f64, .i64, .f64] := by
  decide +kernel

open Flox.IntWidth Flox.Generated in
/-- `table_sum_prod_exact` applied: int8 `nansum`, members `[120, 119, 120, -120, 60]` -/
example : engineSum true 8 64 [120, 119, 120, -120, 60] = 299 :=
  (((table_sum_prod_exact .nansum .i8 .unset false false
    { final := .i64, numpy := [.i64], inter := [("nansum", .i64)] } (Or.inr rfl) (by decide +kernel) .i64 (by decide +kernel) 8
    [120, 119, 120, -120, 60]).1 64 rfl).1 (by decide +kernel)).1

end Flox.C20
