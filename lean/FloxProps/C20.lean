import FloxProofs.Members
namespace Flox.C20
theorem placeholder_members_nil (g : Int) (vs : List Val) : members g [] vs = [] := members_nil_left g vs
end Flox.C20
