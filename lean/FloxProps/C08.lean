/-
  C08 — partial-axis reductions and leading (batch) dimensions are independent slices.
  Property theorems only (helper lemmas: FloxProofs/PartialAxis.lean, FloxProofs/PartialAxisMeta.lean;
  model and specification: FloxModel/PartialAxis.lean).

  Reading guide.  After `groupby_reduce` has moved the reduced dims last (`_move_reduce_dims_to_end`) and
  `chunk_reduce` has collapsed them (`_collapse_axis`), every partial-axis reduction is the situation
  "labels `R × N` (R = kept label indices), values `B × R × N` (B = batch indices), reduce the last axis":
  `rows` are the `R` code rows, `batches` the `B` stacks of `R` value rows.  The value theorems below are about
  that situation, for all `B, R, N, G`; the transposition itself is index bookkeeping, covered by the metadata
  theorems (which output axis is which input axis) and by the correspondence runs (values).
-/
import FloxProofs.PartialAxis
import FloxProofs.PartialAxisMeta

namespace Flox.C08
open Flox.PartialAxis

/-! ## values -/

/-- `offset_labels` arithmetic: a code `0 ≤ c < G` placed in row `r` is `c + r·G`; `/ G` gives back the row and
    `% G` the code -/
theorem offset_div_mod (G r : Nat) (c : Int) (h0 : 0 ≤ c) (hG : c < (G : Int)) :
    offsetCode G r c / (G : Int) = (r : Int) ∧ offsetCode G r c % (G : Int) = c :=
  offsetCode_div_mod G r c h0 hG

/-- … and the missing-label code `-1` is preserved -/
theorem offset_preserves_missing (G r : Nat) : offsetCode G r (-1) = -1 := offsetCode_neg_one G r

/-- **offsetLabels_rows** (plain form).  For 2-D labels reduced along the last axis, the grouped kernel on the
    offset codes and the flattened values with `R·G` slots, read as `R × G`, is the row-wise 1-D result:
    no slice leaks into another. -/
theorem offsetLabels_rows (k : Kernel) (fill : Val) (G : Nat) (rows : List (List Int)) (valRows : List (List Val))
    (hcodes : ∀ row ∈ rows, ∀ c ∈ row, -1 ≤ c ∧ c < (G : Int)) (hm : RowsMatch rows valRows) :
    grouped k (offsetRowsFrom G 0 rows).flatten valRows.flatten (rows.length * G) fill
      = (List.range rows.length).flatMap fun r => grouped k (rows.getD r []) (valRows.getD r []) G fill :=
  grouped_offsetRows k fill G rows valRows hcodes hm

/-- **offsetLabels_rows** (as the code runs it): the block stage of `chunk_reduce` — clamp to the `RangeIndex`,
    offset, `-1 ↦` sentinel slot `R·G`, kernel call per batch index, sentinel slot dropped, and the `np.full`
    shortcut when every label is missing — equals the row-wise, batch-wise 1-D kernel, for every grouped kernel
    whose slots depend on their own members only (`Slotwise`; e.g. the contract `grouped`). -/
theorem offsetLabels_rows_model (E : List Int → List Val → Nat → List Val) (φ : List Val → Val) (hE : Slotwise E φ)
    (fv : Val) (hfv : φ [] = fv) (G : Nat) (rows : List (List Int)) (batches : List (List (List Val)))
    (hcodes : ∀ row ∈ rows, ∀ c ∈ row, -1 ≤ c ∧ c < (G : Int))
    (hb : ∀ vrows ∈ batches, RowsMatch rows vrows) :
    coreColWith E fv G true rows batches
      = batches.flatMap fun vrows =>
          (List.range rows.length).flatMap fun r => E (rows.getD r []) (vrows.getD r []) G :=
  coreColWith_rows E φ hE fv hfv G rows batches hcodes hb

/-- the numpy_groupies engine (behind flox's wrappers) satisfies the slot-wise contract for every non-arg kernel -/
theorem npg_engine_slotwise (k : Kernel) (fv : Val) (hna : isArgKernel k = false)
    (hz : (k = .nanlen ∨ k = .nansumsq) → fv = Val.zero) :
    Slotwise (fun c v s => engineCall .npg k c v s fv) (blockVal k fv) :=
  slotwise_npg k fv hna hz

/-- all label dims reduced: no offsetting; one 1-D kernel call per batch index on the flattened labels -/
theorem all_dims_flat (E : List Int → List Val → Nat → List Val) (φ : List Val → Val) (hE : Slotwise E φ)
    (fv : Val) (hfv : φ [] = fv) (G : Nat) (rows : List (List Int)) (batches : List (List (List Val)))
    (hcodes : ∀ row ∈ rows, ∀ c ∈ row, -1 ≤ c ∧ c < (G : Int)) :
    coreColWith E fv G false rows batches = batches.flatMap fun vrows => E rows.flatten vrows.flatten G :=
  coreColWith_all E φ hE fv hfv G rows batches hcodes

/-- **batch_map**: dims of the value array that the labels do not cover are pure batch dims — the result for a
    stack of arrays is the stack of the results (any engine, any kernel, with or without offsetting). -/
theorem batch_map (E : List Int → List Val → Nat → List Val) (fv : Val) (G : Nat) (offset : Bool)
    (rows : List (List Int)) (b₁ b₂ : List (List (List Val))) :
    coreColWith E fv G offset rows (b₁ ++ b₂)
      = coreColWith E fv G offset rows b₁ ++ coreColWith E fv G offset rows b₂ :=
  coreColWith_append E fv G offset rows b₁ b₂

/-- **The eager partial-axis pipeline = slice-by-slice evaluation** (numpy_groupies engine, non-arg kernel `k` with
    its `nanlen` counter, effective `min_count ≥ 1`, user fill `f`): entry `(b, r, g)` of the result is
    `slotFinal` of the members of group `g` in row `r` of batch `b` — nothing else. -/
theorem eager_pipeline_rows (R : Resolved) (k : Kernel) (fv f : Val) (G lastDim : Nat)
    (rows : List (List Int)) (batches : List (List (List Val)))
    (hnumpy : R.numpy = [k, .nanlen]) (hfills : R.numpyFills = [fv, Val.zero]) (harg : R.isArg = false)
    (hmc : R.minCount > 0) (hfill : R.userFill = some f)
    (hna : isArgKernel k = false) (hz : (k = .nanlen ∨ k = .nansumsq) → fv = Val.zero)
    (hcodes : ∀ row ∈ rows, ∀ c ∈ row, -1 ≤ c ∧ c < (G : Int))
    (hb : ∀ vrows ∈ batches, RowsMatch rows vrows) :
    eagerCore R .npg G true lastDim rows batches
      = some (batches.flatMap fun vrows => (List.range rows.length).flatMap fun r =>
          (List.range G).map fun (g : Nat) =>
            slotFinal k fv R.minCount f (members (Int.ofNat g) (rows.getD r []) (vrows.getD r []))) :=
  eagerCore_rows R k fv f G lastDim rows batches hnumpy hfills harg hmc hfill hna hz hcodes hb

/-- `groupby_reduce` forces `min_count = 1` when a subset of the label dims is reduced … -/
theorem min_count_forced (rq : PRequest) (nax : Nat) (h : nax < rq.byNdim) (hnone : rq.minCount = none) :
    (PartialAxis.effective rq nax).1 = 1 := by
  simp [PartialAxis.effective, hnone, h]

/-- **absent_in_slice_filled** … so that a group absent from a slice gets the user's fill in that slice
    (whatever the kernel's own fill `fv` for empty slots is). -/
theorem absent_in_slice_filled (k : Kernel) (fv : Val) (mc : Nat) (hmc : 1 ≤ mc) (f : Val) :
    slotFinal k fv mc f [] = f :=
  slotFinal_absent k fv mc hmc f

/-! ## metadata: which output axis is which input axis -/

/-- the sign of an axis is irrelevant -/
theorem axis_sign_irrelevant (ndim a : Nat) (h : a < ndim) :
    normAxis1 ndim ((a : Int) - (ndim : Int)) = normAxis1 ndim (a : Int) := by
  rw [normAxis1_neg ndim a h, normAxis1_nonneg ndim a h]

/-- **shape_positions (1)**: `groupby_reduce` sorts the normalised axes; for every duplicate-free list of label dims,
    named in any order, output axis `i` (all but the last) is the `i`-th kept dim of the user's array in ascending
    order -/
theorem kept_dims_positions (ndim byNdim : Nat) (axes : List Nat) (hby : byNdim ≤ ndim) (hnd : axes.Nodup)
    (hlt : ∀ a ∈ axes, a < ndim) (hge : ∀ a ∈ axes, ndim - byNdim ≤ a) (hlen : axes.length ≤ byNdim) :
    outDims ndim (entryOf ndim byNdim (sortNat axes)) = keptDims ndim axes := by
  rw [outDims_eq_kept ndim byNdim (sortNat axes) hby (nodup_sortNat axes hnd)
    (fun a ha => hlt a (mem_sortNat.mp ha)) (fun a ha => hge a (mem_sortNat.mp ha))
    (by rw [length_sortNat]; exact hlen), keptDims_sortNat]

/-- **shape_positions (2)**: the eager result has the sizes of the kept dims followed by the group axis (last), and
    the shape announced by the graph (`out_inds = inds[:-len(axis)] + (inds[-1],)`) is the same -/
theorem shape_positions (shape : List Nat) (byNdim G : Nat) (axes : List Nat) (hby : byNdim ≤ shape.length)
    (hnd : axes.Nodup) (hlt : ∀ a ∈ axes, a < shape.length) (hge : ∀ a ∈ axes, shape.length - byNdim ≤ a)
    (hlen : axes.length ≤ byNdim) :
    eagerOutShape shape (entryOf shape.length byNdim (sortNat axes)) G
        = (keptDims shape.length axes).map (fun d => shape.getD d 1) ++ [G]
    ∧ chunkedOutShape shape (entryOf shape.length byNdim (sortNat axes)) G
        = eagerOutShape shape (entryOf shape.length byNdim (sortNat axes)) G := by
  have h := shapes_agree shape byNdim G (sortNat axes) hby (nodup_sortNat axes hnd)
    (fun a ha => hlt a (mem_sortNat.mp ha)) (fun a ha => hge a (mem_sortNat.mp ha))
    (by rw [length_sortNat]; exact hlen)
  rw [keptDims_sortNat] at h
  exact h

/-- **shape_positions (3), FULL**: the graph has no order-dependent failure — for every duplicate-free list of dims,
    named in any order (the sign is gone after `normAxis1`), for proper subsets of the label dims and for all of them,
    and for every plan (map-reduce, cohorts, blockwise).  (Before the repairs b13f971 / 6345101 this held only with the
    hypothesis "the last array axis is named last" and only for map-reduce / cohorts.) -/
theorem chunked_graph_ok (ndim byNdim : Nat) (axes : List Nat) (hnd : axes.Nodup) (hlt : ∀ a ∈ axes, a < ndim)
    (m : Method) :
    chunkedError ndim (entryOf ndim byNdim (sortNat axes)) m = none :=
  chunked_ok_sorted ndim byNdim axes hnd hlt m

/-- the `sorted(...)` in the entry is load-bearing: `_simple_combine` itself (`axis[:-1] + (DUMMY_AXIS,)`) still
    depends on the order of `axis_`; the entry never hands it an unsorted one -/
theorem sorted_entry_is_needed :
    chunkedError 3 (entryOf 3 2 [2, 1]) .mapreduce = some "ValueError"
    ∧ chunkedError 3 (entryOf 3 2 (sortNat [2, 1])) .mapreduce = none
    ∧ (entry 3 2 (some [2, 1])).toOption = (entry 3 2 (some [1, 2])).toOption
    ∧ (entry 3 2 (some [-1, 1])).toOption = (entry 3 2 (some [1, 2])).toOption
    ∧ (entry 3 2 (some [1, 2])).toOption = some (entryOf 3 2 [1, 2]) := by
  decide +kernel

/-! ## non-vacuity: the hypotheses are satisfiable on concrete, non-trivial inputs -/

section Examples

private def exRows : List (List Int) := [[0, -1, 1], [1, 1, -1], [-1, -1, -1]]
private def exVals : List (List Val) :=
  [[.fin 1, .fin 2, .fin 3], [.fin 4, .nan, .fin 6], [.fin 7, .fin 8, .fin 9]]

example : RowsMatch exRows exVals := by simp [RowsMatch, exRows, exVals]
example : ∀ row ∈ exRows, ∀ c ∈ row, -1 ≤ c ∧ c < ((2 : Nat) : Int) := by decide

/-- offset codes of the example: rows 0,1,2 use slots 0-1, 2-3, 4-5; missing stays -1 -/
example : (offsetRowsFrom 2 0 exRows).flatten = [0, -1, 1, 3, 3, -1, -1, -1, -1] := by decide

/-- group 0 is absent from row 1 and every group from row 2: those slots hold the fill, the others the row's own
    reduction (row 1, group 1 = nansum [4, NaN] = 4, not contaminated by row 0's 3) -/
example : coreColWith (fun c v s => grouped .nansum c v s Val.nan) Val.nan 2 true exRows [exVals]
    = [.fin 1, .fin 3, .nan, .fin 4, .nan, .nan] := by decide +kernel

/-- a stack of two arrays -/
example : coreColWith (fun c v s => grouped .nansum c v s Val.nan) Val.nan 2 true exRows [exVals, exVals]
    = [.fin 1, .fin 3, .nan, .fin 4, .nan, .nan, .fin 1, .fin 3, .nan, .fin 4, .nan, .nan] := by decide +kernel

/-- the finished slot: `sum` of an absent group would be 0, the forced `min_count = 1` turns it into the fill -/
example : slotFinal .sum Val.zero 1 (.fin (-7)) [] = .fin (-7) ∧ slotFinal .sum Val.zero 1 (.fin (-7)) [.fin 2, .fin 3] = .fin 5 := by
  decide +kernel

/-- metadata: a 4-D array, 3-D labels (dims 1,2,3), `axis=(3,1)`: dims 0 and 2 are kept, in that order -/
example : outDims 4 (entryOf 4 3 (sortNat [3, 1])) = [0, 2]
    ∧ eagerOutShape [2, 3, 4, 5] (entryOf 4 3 (sortNat [3, 1])) 7 = [2, 4, 7]
    ∧ (entryOf 4 3 (sortNat [3, 1])).order = [0, 2, 1, 3] := by decide

/-- repaired behaviour: three reduced axes under the blockwise plan, and all label dims named in descending order -/
example : chunkedError 3 (entryOf 3 3 (sortNat [0, 1, 2])) .blockwise = none
    ∧ chunkedError 3 (entryOf 3 3 (sortNat [2, 1, 0])) .mapreduce = none
    ∧ chunkedError 3 (entryOf 3 3 (sortNat [2, 0, 1])) .cohorts = none := by decide

example : normalizeAxes 4 [-1, 1] = some [3, 1] ∧ normalizeAxes 4 [-1, 3] = none ∧ normalizeAxes 4 [4] = none := by decide

end Examples

end Flox.C08
