/-
  C10 — grouped scans (nancumsum, ffill, bfill) equal per-group sequential scans, for every chunking.
  Property theorems only; helper lemmas live in FloxProofs/Scan*.lean.  Model: FloxModel/Scan.lean (flox's code path),
  specification: FloxModel/ScanSpec.lean (NumPy semantics only).

  The only hypothesis narrower than the property's quantifier is named and shown necessary by counterexamples:
    `Good f l`      (nancumsum: no ±inf in the data)          – findings C10-F2 (kernel) and C10-F3 (carried state)
  (The early return "one element / every element alone in its group" is covered since fix 53517b3: `shortcut_correct`.)
-/
import FloxProofs.ScanEntry

namespace Flox.C10
open Flox Flox.Scan

/-! ### the specification says what the property says -/

/-- the positions of every group hold the ordinary NumPy scan (`np.nancumsum` / forward fill) of that group's members in
    positional order, and the result has the input's shape -/
theorem spec_is_grouped_scan (f : Func) (l : AA) :
    (groupedScan f l).length = l.length ∧ ∀ g, mem g ((keys l).zip (groupedScan f l)) = seqScan f (mem g l) :=
  groupedScan_isGroupedScan f l

/-- no cross-group flow: the value at a position is determined by the members of its own label at positions up to and
    including itself (`a` = everything before, `b` = everything after; neither `b` nor other labels in `a` enter) -/
theorem no_cross_group_flow (f : Func) (a b : AA) (p : Int × Val) :
    (groupedScan f (a ++ p :: b))[a.length]? = some (scanLast f (mem p.1 (a ++ [p]))) :=
  groupedScan_at f a b p

/-! ### in-memory kernels -/

/-- `aggregate_flox.ffill` (stable sort, group starts, mask, `maximum.accumulate` of indices, inverse permutation) is the
    grouped forward fill – for all inputs, also NaN at group starts, unsorted labels, label `-1` -/
theorem ffillEngine_eq_spec (l : AA) : ffillEngine l = groupedScan .ffill l :=
  ffillEngine_eq_groupedScan l

/-- numpy_groupies' `nancumsum` is the grouped `np.nancumsum` when no `±inf` occurs.
    Full statement (FALSE, see `nancumsum_inf_counterexample`): `∀ l, npgNancumsum l = groupedScan .nancumsum l`. -/
theorem nancumsumEngine_eq_spec_partial (l : AA) (h : NoInf l) : npgNancumsum l = groupedScan .nancumsum l :=
  npgNancumsum_eq_groupedScan l h

/-- C10-F2: one `+inf` in group 0 turns its own entry AND all entries of group 1 into NaN (cross-group flow) -/
theorem nancumsum_inf_counterexample :
    npgNancumsum [(1, .fin 1), (0, .pinf), (1, .fin 2)] = [.nan, .nan, .nan] ∧
    groupedScan .nancumsum [(1, .fin 1), (0, .pinf), (1, .fin 2)] = [.fin 1, .pinf, .fin 3] := by
  decide +kernel

/-! ### carried states: homomorphism, associativity, any bracketing -/

/-- the binary operator of the parallel scan combines the states of two adjacent histories into the state of their
    concatenation (`Rep f S X`: the aligned arrays `S` carry, for every group, the last scan value of history `X`) -/
theorem scanBinop_homomorphism (f : Func) (l r A B : AA) (hl : Rep f l A) (hr : Rep f r B)
    (hA : Good f A) (hB : Good f B) : Rep f (combineState f l r) (A ++ B) :=
  rep_combine f l r A B hl hr hA hB

/-- associativity in the sense needed: both bracketings of three adjacent block states represent the same history -/
theorem scanBinop_assoc (f : Func) (a b c : AA) (ha : Good f a) (hb : Good f b) (hc : Good f c) :
    Rep f (combineState f (combineState f (groupedReduce f a) (groupedReduce f b)) (groupedReduce f c)) (a ++ b ++ c) ∧
    Rep f (combineState f (groupedReduce f a) (combineState f (groupedReduce f b) (groupedReduce f c))) (a ++ b ++ c) := by
  constructor
  · exact rep_combine f _ _ _ _ (rep_combine f _ _ _ _ (rep_leaf f a) (rep_leaf f b) ha hb) (rep_leaf f c)
      (Good.append ha hb) hc
  · rw [List.append_assoc]
    exact rep_combine f _ _ _ _ (rep_leaf f a) (rep_combine f _ _ _ _ (rep_leaf f b) (rep_leaf f c) hb hc) ha
      (Good.append hb hc)

/-- any bracketing (tree) of the per-block states gives the state of the blocks concatenated in leaf order – in particular
    every tree dask's Blelloch up-sweep / down-sweep builds gives the sequential prefix -/
theorem blelloch_eq_sequential (f : Func) (blocks : List AA) (h : ∀ b ∈ blocks, Good f b) (t : BTree) :
    Rep f (t.eval (combineState f) (fun j => groupedReduce f (blocks.getD j [])))
      ((t.leaves.map (blocks.getD · [])).flatten) :=
  tree_rep f blocks h t

/-- C10-F3: the state update `concatenate([left, result]).last()` is a `nanlast`: a NaN total (`inf + -inf`) is skipped
    and the older `+inf` survives, so the state no longer represents the history -/
theorem nancumsum_state_loses_nan_counterexample :
    combineState .nancumsum (groupedReduce .nancumsum [(0, .pinf)]) (groupedReduce .nancumsum [(0, .ninf)]) = [(0, .pinf)] ∧
    groupedReduce .nancumsum [(0, .pinf), (0, .ninf)] = [(0, .nan)] := by
  decide +kernel

/-- the bracketings dask builds for up to 33 blocks are well-formed (tree `i` brackets blocks `0..i` in order);
    for more blocks the driver re-checks `validTrees` at run time -/
theorem blellochTrees_valid_upto_32 : ∀ n ∈ List.range 33, validTrees (blellochTrees n) = true := by
  decide +kernel

/-! ### chunked = specification (= eager) for every chunking -/

/-- dask path: for EVERY list of blocks (any chunking, groups skipping blocks, all-NaN blocks …) and EVERY well-formed family
    of bracketings the blockwise result is the grouped scan of the concatenated input -/
theorem scan_chunked_eq_spec (f : Func) (trees : List BTree) (blocks : List AA) (h : ∀ b ∈ blocks, Good f b)
    (ht : TreesOK trees blocks.length) : scanChunked f trees blocks = groupedScan f blocks.flatten :=
  scanChunked_eq f trees blocks h ht

/-- the entry point, float data: in-memory and chunked results both equal the specification, hence each other, including the
    early return for "one element / every element alone in its group".
    `Good` restricts nancumsum to data without ±inf; for nancumsum labels must not be missing (flox refuses them, see
    `nancumsum_refuses_missing`).
    Full statement (FALSE): without `hg`; see `nancumsum_inf_counterexample`, `nancumsum_chunked_inf_counterexample`. -/
theorem groupby_scan_eq_spec_partial (f : Func) (chunks : Option (List Nat)) (trees : List BTree) (l : AA)
    (hg : Good f l) (hneg : f = .nancumsum → ∀ k ∈ keys l, 0 ≤ k)
    (hc : ChunksOK chunks trees l.length) :
    groupbyScan f true chunks trees l = .ok (spec f l) :=
  groupbyScan_eq_spec f chunks trees l hg hneg hc

/-- ffill / bfill need no hypothesis at all on the data or the labels (NaN at group starts, label -1, ±inf, any chunking) -/
theorem groupby_fill_eq_spec (f : Func) (hf : f ≠ .nancumsum) (chunks : Option (List Nat)) (trees : List BTree) (l : AA)
    (hc : ChunksOK chunks trees l.length) :
    groupbyScan f true chunks trees l = .ok (spec f l) :=
  groupbyScan_eq_spec f chunks trees l (fun h => absurd h hf) (fun h => absurd h hf) hc

/-- chunked = eager under any chunking and bracketing -/
theorem chunked_eq_eager_partial (f : Func) (cs : List Nat) (trees : List BTree) (l : AA)
    (hg : Good f l) (hneg : f = .nancumsum → ∀ k ∈ keys l, 0 ≤ k)
    (hsum : cs.sum = l.length) (ht : TreesOK trees cs.length) :
    groupbyScan f true (some cs) trees l = groupbyScan f true none [] l := by
  rw [groupbyScan_eq_spec f (some cs) trees l hg hneg (by intro c hc; cases hc; exact ⟨hsum, ht⟩),
    groupbyScan_eq_spec f none [] l hg hneg (by intro c hc; cases hc)]

/-- bfill is the mirror image of ffill: the model's bfill (reverse as preprocess and finalize, reversed chunks) equals
    `reverse ∘ ffill-spec ∘ reverse` – for all inputs -/
theorem bfill_mirror (chunks : Option (List Nat)) (trees : List BTree) (l : AA)
    (hc : ChunksOK chunks trees l.length) :
    groupbyScan .bfill true chunks trees l = .ok (groupedScan .ffill l.reverse).reverse :=
  groupbyScan_eq_spec .bfill chunks trees l (fun h => absurd h (by decide)) (fun h => absurd h (by decide)) hc

/-- the early return `by_.shape[-1] == 1 or by_.shape == grp_shape` is taken only when every element is alone in its
    group, and what it returns (the array; NaN→0 for nancumsum) is the specification -/
theorem shortcut_correct (f : Func) (l : AA) (h : Shortcut l) :
    (keys l).Nodup ∧ (if f = .nancumsum ∧ true = true then vals (nanToZero l) else vals l) = spec f l :=
  ⟨shortcut_nodup l h, shortcut_eq_spec f l h⟩

/-- integer / boolean data: ffill and bfill return the array untouched, which is the fill of NaN-free data -/
theorem fill_nonfloat (f : Func) (hf : f ≠ .nancumsum) (chunks : Option (List Nat)) (trees : List BTree) (l : AA)
    (h : ∀ p ∈ l, p.2.isNaN = false) : groupbyScan f false chunks trees l = .ok (spec f l) :=
  groupbyScan_nonfloat_fill f hf chunks trees l h

/-- when all labels are distinct a fill changes nothing, so the shortcut is harmless for ffill / bfill -/
theorem fill_distinct_labels_identity (f : Func) (hf : f ≠ .nancumsum) (l : AA) (h : (keys l).Nodup) :
    groupedScan f l = vals l :=
  groupedScanFrom_distinct f hf [] l (by simpa using h)

-- repaired behaviour (fix 53517b3, formerly finding C10-F1): every element its own group, NaN becomes 0 as in NumPy
example : groupbyScan .nancumsum true none [] [(0, .fin 1), (1, .nan), (2, .fin 2)] = .ok [.fin 1, .fin 0, .fin 2] ∧
    spec .nancumsum [(0, .fin 1), (1, .nan), (2, .fin 2)] = [.fin 1, .fin 0, .fin 2] := by
  decide +kernel
example : Shortcut [(0, .fin 1), (1, .nan), (2, .fin 2)] := by unfold Shortcut; decide +kernel

/-- C10-F3 at API level: four blocks `[inf] [-inf] [1] [2]` of one group: chunked ≠ eager (and both ≠ NumPy) -/
theorem nancumsum_chunked_inf_counterexample :
    groupbyScan .nancumsum true (some [1, 1, 1, 1]) (blellochTrees 3) [(0, .pinf), (0, .ninf), (0, .fin 1), (0, .fin 2)]
      = .ok [.nan, .nan, .pinf, .pinf] ∧
    groupbyScan .nancumsum true none [] [(0, .pinf), (0, .ninf), (0, .fin 1), (0, .fin 2)] = .ok [.nan, .nan, .nan, .nan] ∧
    spec .nancumsum [(0, .pinf), (0, .ninf), (0, .fin 1), (0, .fin 2)] = [.pinf, .nan, .nan, .nan] := by
  decide +kernel

/-- nancumsum refuses missing labels (code -1), ffill / bfill bucket them -/
theorem nancumsum_refuses_missing :
    groupbyScan .nancumsum true none [] [(0, .fin 1), (-1, .fin 5), (0, .fin 2)] = .refused := by
  decide +kernel

/-! ### non-vacuity: the hypotheses are satisfiable on non-trivial inputs and the theorems say something there -/

-- two interleaved groups, NaN run across a block boundary, group 1 absent from the middle block, 3 blocks (two-level prefix)
example : ¬ Shortcut [(0, .fin 1), (1, .nan), (0, .nan), (0, .nan), (1, .fin 4), (0, .fin 2)] := by
  unfold Shortcut; decide +kernel
example : ChunksOK (some [2, 2, 2]) (blellochTrees 2) 6 := by
  intro cs h; cases h; exact ⟨rfl, validTrees_ok _ _ (by decide +kernel) (by decide +kernel)⟩
example : groupbyScan .ffill true (some [2, 2, 2]) (blellochTrees 2)
    [(0, .fin 1), (1, .nan), (0, .nan), (0, .nan), (1, .fin 4), (0, .fin 2)]
    = .ok [.fin 1, .nan, .fin 1, .fin 1, .fin 4, .fin 2] := by decide +kernel
example : groupbyScan .bfill true (some [2, 2, 2]) (blellochTrees 2)
    [(0, .fin 1), (1, .nan), (0, .nan), (0, .nan), (1, .fin 4), (0, .fin 2)]
    = .ok [.fin 1, .fin 4, .fin 2, .fin 2, .fin 4, .fin 2] := by decide +kernel
example : groupbyScan .nancumsum true (some [1, 1, 1, 1, 2]) (blellochTrees 4)
    [(0, .fin 1), (1, .nan), (0, .nan), (0, .fin 3), (1, .fin 4), (0, .fin 2)]
    = .ok [.fin 1, .fin 0, .fin 1, .fin 4, .fin 4, .fin 6] := by decide +kernel
example : NoInf [(0, .fin 1), (1, .nan), (0, .nan)] := by
  intro p hp; simp at hp; rcases hp with rfl | rfl | rfl <;> simp
example : (BTree.node (.node (.leaf 0) (.leaf 1)) (.leaf 2)).leaves = List.range 3 := by decide
example : blellochTrees 4 = [.leaf 0, .node (.leaf 0) (.leaf 1), .node (.node (.leaf 0) (.leaf 1)) (.leaf 2),
    .node (.node (.leaf 0) (.leaf 1)) (.node (.leaf 2) (.leaf 3))] := by decide +kernel

end Flox.C10
