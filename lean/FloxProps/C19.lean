/-
  C19 — unsupported requests are refused cleanly; the auto plan works wherever map-reduce does.

  Model: `Flox.Decisions` (FloxModel/Decisions.lean) — `_validate_reindex`, `_choose_method`, `_choose_engine` and the
  guard chain of `groupby_reduce` / `dask_groupby_agg` on an abstract configuration cell; the three decision
  functions are proved equal to tables regenerated from the live code.  Spec: `Flox.Spec19` (FloxModel/SpecC19.lean).
  The data-dependent part of the property (no internal error at compute time, values equal to the NumPy oracle) is
  checked by differential execution over the enumerated cells (harness/props_c19.py).
-/
import FloxProofs.Decisions
import FloxProofs.BlockwiseRefusal
import FloxModel.SpecC19

namespace Flox.C19
open Flox.Decisions

/-! ### tie to the code: the decision functions equal the regenerated tables -/

theorem validateReindex_eq_generated :
    ∀ r ∈ Generated.validateReindexRows,
      validateReindex r.reindex r.kind.cls r.method r.expected r.byDask r.arrDask r.isFloat = r.result :=
  Flox.Decisions.validateReindex_eq_generated

theorem chooseMethod_eq_generated :
    ∀ r ∈ Generated.chooseMethodRows, chooseMethod r.method r.preferred r.chunkNone r.naxEqNdim r.isArg = r.result :=
  Flox.Decisions.chooseMethod_eq_generated

theorem chooseEngine_eq_generated :
    ∀ r ∈ Generated.chooseEngineRows, chooseEngine r.kind r.countMask r.sorted r.byDask r.dtypeGiven r.hasNumbagg = r.engine :=
  Flox.Decisions.chooseEngine_eq_generated

theorem features_eq_generated :
    ∀ r ∈ Generated.funcFeatures, r.kind.isArg = r.isArg ∧ r.kind.isFirstLast = r.isFirstLast ∧
      r.kind.strictFirstLast = r.strictFirstLast ∧ r.kind.chunkNone = r.chunkNone ∧ r.kind.needsQ = r.needsQ :=
  Flox.Decisions.features_eq_generated

/-! ### the reindex / method / engine rules -/

/-- on chunked input `method="cohorts"` never comes with blockwise reindexing -/
theorem validate_never_cohorts_with_blockwise_reindex
    (reindex : Option Bool) (k : FuncClass) (expected byDask arrDask isFloat : Bool)
    (hdask : (arrDask || byDask) = true) :
    validateReindex reindex k (some .cohorts) expected byDask arrDask isFloat ≠ .ok (some true) :=
  Flox.Decisions.validate_never_cohorts_with_blockwise_reindex reindex k expected byDask arrDask isFloat hdask

example : validateReindex none .plain (some .cohorts) true false true true = .ok (some false) := by decide +kernel
example : validateReindex (some true) .plain (some .cohorts) true false true true = .err .valueError := by decide +kernel

/-- arg-reductions on chunked input are never reindexed blockwise by `_validate_reindex` (`…_partial`: except under an
    explicit blockwise plan with dask labels, where `reindex` resolves to `any_by_dask` — see the counterexample; the
    whole chain then accepts that plan on a single block only, `blockwise_dask_labels_single_block`) -/
theorem argreduce_never_reindex_true_partial
    (reindex : Option Bool) (method : Option Method) (expected byDask arrDask isFloat : Bool)
    (hdask : (arrDask || byDask) = true) (hm : (method == some .blockwise && byDask) = false) :
    validateReindex reindex .arg method expected byDask arrDask isFloat ≠ .ok (some true) :=
  Flox.Decisions.argreduce_never_reindex_true reindex method expected byDask arrDask isFloat hdask hm

-- full statement (false in the model): ∀ reindex method …, (arrDask || byDask) → validateReindex reindex .arg method … ≠ .ok (some true)
theorem argreduce_never_reindex_true_counterexample :
    validateReindex none .arg (some .blockwise) true true true true = .ok (some true) := by decide +kernel

example : validateReindex none .arg (some .mapReduce) true false true true = .ok (some false) := by decide +kernel

/-- first / last (and nanfirst / nanlast on non-float data) are never reindexed blockwise on chunked input -/
theorem first_last_never_reindex_blockwise
    (reindex : Option Bool) (k : FuncClass) (method : Option Method) (expected byDask arrDask isFloat : Bool)
    (hdask : (arrDask || byDask) = true) (hfl : (k.strictFirstLast || (k.isFirstLast && !isFloat)) = true) :
    validateReindex reindex k method expected byDask arrDask isFloat ≠ .ok (some true) :=
  Flox.Decisions.first_last_never_reindex_blockwise reindex k method expected byDask arrDask isFloat hdask hfl

example : validateReindex none .nanfirst (some .mapReduce) true false true false = .ok (some false) := by decide +kernel

/-- `method=None` never fails in `_choose_method` for a reduction that has a chunk function -/
theorem auto_method_total (preferred : Method) (naxEqNdim isArg : Bool) :
    (chooseMethod none preferred false naxEqNdim isArg).isOk = true :=
  Flox.Decisions.auto_method_total preferred naxEqNdim isArg

example : chooseMethod none .blockwise false true true = .ok .cohorts := by decide +kernel
example : chooseMethod none .cohorts true true false = .err .valueError := by decide +kernel

/-- the engine flox picks can run the reduction -/
theorem engine_able (k : FuncKind) (countMask sorted byDask dtypeGiven hasNumbagg : Bool) :
    (k.isArg = true → chooseEngine k countMask sorted byDask dtypeGiven hasNumbagg ≠ .flox) ∧
    (k.quantileLike = true → chooseEngine k countMask sorted byDask dtypeGiven hasNumbagg = .flox) ∧
    (chooseEngine k countMask sorted byDask dtypeGiven hasNumbagg = .numbagg →
        hasNumbagg = true ∧ k.isArg = false ∧ (dtypeGiven = false ∨ k.isAnyAll = true)) ∧
    chooseEngine k countMask sorted byDask dtypeGiven hasNumbagg ≠ .numba :=
  Flox.Decisions.engine_able k countMask sorted byDask dtypeGiven hasNumbagg

example : chooseEngine .nanskip false true false false true = .numbagg ∧ chooseEngine .plain false true false false true = .flox ∧
    chooseEngine .plain true true false false true = .numbagg ∧ chooseEngine .arg false true false false true = .numpy := by decide +kernel

/-! ### the whole validation chain -/

theorem validate_err (c : Cell) (e : ErrKind) (h : validate c = .err e) :
    entryGuards c.fk c.engine c.dtypeGiven c.dtypeInt c.qGiven c.byDask c.arrDask = .err e ∨ core c.toCoreCell = .err e := by
  unfold validate at h
  cases hg : entryGuards c.fk c.engine c.dtypeGiven c.dtypeInt c.qGiven c.byDask c.arrDask with
  | err e' =>
    rw [hg] at h
    simp only [Res.bind, Res.err.injEq] at h
    exact Or.inl (by rw [h])
  | ok u =>
    rw [hg] at h
    cases hc : core c.toCoreCell with
    | err e' =>
      rw [hc] at h
      simp only [Res.bind, Res.err.injEq] at h
      exact Or.inr (by rw [h])
    | ok p =>
      rw [hc] at h
      simp [Res.bind] at h

theorem validate_ok (c : Cell) (p : Plan) (h : validate c = .ok p) :
    entryGuards c.fk c.engine c.dtypeGiven c.dtypeInt c.qGiven c.byDask c.arrDask = .ok () ∧
    core c.toCoreCell = .ok (p.method, p.blockwise) ∧ p.engine = engineOf c := by
  unfold validate at h
  cases hg : entryGuards c.fk c.engine c.dtypeGiven c.dtypeInt c.qGiven c.byDask c.arrDask with
  | err e' => rw [hg] at h; simp [Res.bind] at h
  | ok u =>
    rw [hg] at h
    cases hc : core c.toCoreCell with
    | err e' => rw [hc] at h; simp [Res.bind] at h
    | ok q =>
      rw [hc] at h
      simp only [Res.bind, Res.ok.injEq] at h
      subst h
      exact ⟨rfl, rfl, rfl⟩

/-- how the model's verdict reads as an outcome of the specification -/
def toOutcome : Res Plan → Spec19.Outcome
  | .ok _ => .ok []
  | .err .valueError => .raised ["ValueError", "Exception"]
  | .err .notImplemented => .raised ["NotImplementedError", "RuntimeError", "Exception"]
  | .err .importError => .raised ["ImportError", "Exception"]
  | .err .assertion => .raised ["AssertionError", "Exception"]
  | .err .other => .raised ["Exception"]

/-- **Clean refusal.**  On aligned input (the documented contract) the validation chain either accepts the request or
    refuses it with ValueError / NotImplementedError / ImportError — no assertion is left that can fail, for any
    reduction, engine, method, reindex, label kind, axis relation, expected_groups and planner preference. -/
theorem validate_no_internal (c : Cell) (hal : c.aligned = true) :
    (toOutcome (validate c)).clean = true := by
  have hc := core_no_internal c.toCoreCell hal
  have hg := entryGuards_clean c.fk c.engine c.dtypeGiven c.dtypeInt c.qGiven c.byDask c.arrDask
  cases hv : validate c with
  | ok p => rfl
  | err e =>
    rcases validate_err c e hv with h | h
    · cases e <;> first | rfl | exact absurd h hg.1 | exact absurd h hg.2
    · cases e <;> first | rfl | exact absurd h hc.1 | exact absurd h hc.2

def cellTooMany : Cell :=
  { kind := .plain, method := none, reindex := none, byDask := false, arrDask := false, ax := axisRel 2 1,
    expected := false, isFloat := true, preferred := .mapReduce, cohortsEmpty := true, singleBlock := true,
    aligned := true, fk := .plain, qGiven := true, engine := none, dtypeGiven := false, dtypeInt := false, countMask := false, sorted := true, hasNumbagg := true }

/-- the former counterexamples are now clean refusals:
    `groupby_reduce(array_2d, by_1d, func="sum", axis=(0, 1))` (was `assert nax <= by_.ndim`, C19-F6) -> ValueError;
    an arg-reduction over both axes of 2-D labels on a chunked array (was `assert len(axis) == 1`, C19-F1)
    -> NotImplementedError; an arg-reduction with a floating `dtype=` (was a TypeError in numpy_groupies, C19-F7)
    -> ValueError -/
example : validate cellTooMany = .err .valueError ∧
    validate { cellTooMany with kind := .arg, fk := .arg, arrDask := true, ax := axisRel 2 2 } = .err .notImplemented ∧
    validate { cellTooMany with kind := .arg, fk := .arg, ax := axisRel 1 1, dtypeGiven := true, dtypeInt := false }
      = .err .valueError ∧
    validate { cellTooMany with kind := .arg, fk := .arg, ax := axisRel 1 1, dtypeGiven := true, dtypeInt := true }
      = .ok { method := none, blockwise := some true, engine := .numpy } := by decide +kernel

def cellExample : Cell :=
  { kind := .arg, method := some .cohorts, reindex := none, byDask := false, arrDask := true, ax := axisRel 1 1,
    expected := true, isFloat := true, preferred := .cohorts, cohortsEmpty := false, singleBlock := false,
    aligned := true, fk := .arg, qGiven := true, engine := none, dtypeGiven := false, dtypeInt := false, countMask := true, sorted := false, hasNumbagg := true }

/-- non-vacuity: an accepted and a refused request satisfying the hypotheses -/
example : cellExample.aligned = true ∧
    validate cellExample = .ok { method := some .cohorts, blockwise := some false, engine := .numpy } ∧
    validate { cellExample with reindex := some true } = .err .notImplemented := by decide +kernel

/-- **What reaches graph construction is consistent** (hence the two `raise ValueError` at the top of
    `dask_groupby_agg` and the strategy-specific `NotImplementedError`s cannot fire later): cohorts never with
    blockwise reindexing, blockwise reindexing only with known labels, arg-reductions under blockwise only on one block,
    reductions without a chunk function only blockwise, a subset of the label axes only under map-reduce, a blockwise
    plan reindexing every block only on a single block (always so with dask labels), a definite reindex flag, and an explicit method is honoured (cohorts may fall back to map-reduce when there is nothing to
    split). -/
theorem validate_plan_sound (c : Cell) (hal : c.aligned = true) (p : Plan) (h : validate c = .ok p) :
    planSound c.toCoreCell p.method p.blockwise = true :=
  core_plan_sound c.toCoreCell hal p.method p.blockwise (validate_ok c p h).2.1

/-- **A blockwise plan that reindexes every block is accepted only on a single block** along the reduced axes (with
    several blocks the request is refused with ValueError; formerly finding C19-F8: only the first block's groups
    reached the result). -/
theorem blockwise_reindexed_only_single_block (c : Cell) (hal : c.aligned = true) (p : Plan) (h : validate c = .ok p)
    (hm : p.method = some .blockwise) (hb : p.blockwise = some true) : c.singleBlock = true := by
  have hs := validate_plan_sound c hal p h
  cases hsb : c.singleBlock with
  | true => rfl
  | false =>
    exfalso
    simp [planSound, hm, hb, hsb] at hs

/-- **method="blockwise" with dask labels** is accepted only when every block is reindexed to the expected groups, hence
    only on a single block along the reduced axes — everything else is a clean refusal (formerly finding C19-F2:
    pandas' TypeError). -/
theorem blockwise_dask_labels_single_block (c : Cell) (hal : c.aligned = true) (p : Plan) (h : validate c = .ok p)
    (hm : p.method = some .blockwise) (hd : c.byDask = true) : p.blockwise = some true ∧ c.singleBlock = true := by
  have hs := validate_plan_sound c hal p h
  have hb : p.blockwise = some true := by
    rcases hpb : p.blockwise with _ | b
    · exfalso; simp [planSound, hm, hd, hpb] at hs
    · cases b with
      | true => rfl
      | false => exfalso; simp [planSound, hm, hd, hpb] at hs
  exact ⟨hb, blockwise_reindexed_only_single_block c hal p h hm hb⟩

def cellBlockwiseDask : Cell :=
  { kind := .plain, method := some .blockwise, reindex := none, byDask := true, arrDask := true, ax := axisRel 1 1,
    expected := true, isFloat := true, preferred := .mapReduce, cohortsEmpty := true, singleBlock := true,
    aligned := true, fk := .plain, qGiven := true, engine := some .numpy, dtypeGiven := false, dtypeInt := false,
    countMask := true, sorted := false, hasNumbagg := true }

/-- non-vacuity: accepted on one block, refused (ValueError) on several blocks or with reindex=False; and with numpy
    labels `method=None, reindex=True` for a reduction without a chunk function runs blockwise with every block
    reporting its own groups -/
example :
    validate cellBlockwiseDask = .ok { method := some .blockwise, blockwise := some true, engine := .numpy } ∧
    validate { cellBlockwiseDask with singleBlock := false } = .err .valueError ∧
    validate { cellBlockwiseDask with reindex := some false } = .err .valueError ∧
    validate { cellBlockwiseDask with kind := .blockwiseOnly, fk := .median, method := none, reindex := some true,
                                      byDask := false, preferred := .blockwise, cohortsEmpty := false, singleBlock := false }
      = .ok { method := some .blockwise, blockwise := some false, engine := .numpy } := by decide +kernel

/-- an accepted arg-reduction never runs on flox's own engine (which does not implement it) -/
theorem validate_engine_able (c : Cell) (p : Plan) (hfk : c.fk.isArg = true) (h : validate c = .ok p) :
    p.engine ≠ .flox := by
  obtain ⟨hg, _, he⟩ := validate_ok c p h
  rw [he]
  unfold engineOf
  cases heng : c.engine with
  | none => exact (Flox.Decisions.engine_able c.fk c.countMask c.sorted c.byDask c.dtypeGiven c.hasNumbagg).1 hfk
  | some e =>
    intro hflox
    simp only at hflox
    subst hflox
    unfold entryGuards at hg
    simp [heng, hfk] at hg

theorem validate_isOk (c : Cell) :
    (validate c).isOk = ((entryGuards c.fk c.engine c.dtypeGiven c.dtypeInt c.qGiven c.byDask c.arrDask).isOk &&
      (core c.toCoreCell).isOk) := by
  unfold validate
  generalize entryGuards c.fk c.engine c.dtypeGiven c.dtypeInt c.qGiven c.byDask c.arrDask = g
  generalize core c.toCoreCell = r
  cases g with
  | err e => rfl
  | ok u =>
    cases r with
    | err e => rfl
    | ok q => cases q; rfl

/-- **Auto plan ⊒ map-reduce.**  Whenever the request with `method="map-reduce"` is accepted, the same request with
    `method=None` is accepted too — whatever `find_group_cohorts` prefers. -/
theorem auto_plan_refines_mapreduce (c : Cell) (hal : c.aligned = true)
    (h : (validate { c with method := some .mapReduce }).isOk = true) :
    (validate { c with method := none }).isOk = true := by
  rw [validate_isOk] at h ⊢
  simp only [Bool.and_eq_true] at h ⊢
  exact ⟨h.1, core_auto_refines c.toCoreCell hal h.2⟩

/-- conversely, for a reduction with a chunk function the auto plan is accepted only where map-reduce is -/
theorem auto_plan_accepted_only_where_mapreduce_is (c : Cell) (hal : c.aligned = true) (hk : c.kind.chunkNone = false)
    (h : (validate { c with method := none }).isOk = true) :
    (validate { c with method := some .mapReduce }).isOk = true := by
  rw [validate_isOk] at h ⊢
  simp only [Bool.and_eq_true] at h ⊢
  exact ⟨h.1, core_auto_ok_mapreduce_ok c.toCoreCell hal hk h.2⟩

example : (validate { cellExample with method := some .mapReduce }).isOk = true ∧
    validate { cellExample with method := none } = .ok { method := some .cohorts, blockwise := some false, engine := .numpy } := by
  decide +kernel

/-! ### method="blockwise" outside its precondition is refused, never answered wrongly -/

/-- **Spanning groups are refused** (induction over the blocks; any number of blocks of any size).  `blockwiseRefused`
    models the check after the blockwise plan (core.py: a repeated missing-label code `-1` is dropped, then
    `len(pd.unique(groups_)) != groups_.size` raises ValueError).  If a label code other than `-1` occurs in two
    different blocks, the request is refused whatever else the blocks contain. -/
theorem blockwise_spanning_refused (pre mid post : List (List Int)) (b1 b2 : List Int) (c : Int) (hc : c ≠ -1)
    (h1 : c ∈ b1) (h2 : c ∈ b2) :
    blockwiseRefused (pre ++ b1 :: mid ++ b2 :: post) = true :=
  Flox.Decisions.blockwise_spanning_refused pre mid post b1 b2 c hc h1 h2

example : blockwiseRefused ([[5]] ++ [0, 0, 1] :: [[7], [-1]] ++ [1, 2, -1] :: [[-1]]) = true ∧
    blockwiseRefused [[0, 0, -1], [-1, 2], [-1]] = false := by decide +kernel

/-- the specification accepts clean refusals and rejects internal errors, wrong answers and an auto plan that fails where
    map-reduce succeeds -/
example :
    Spec19.holds { reference := .ok ["1", "2"], mapReduce := .ok ["1", "2"], auto := .ok ["1", "2"],
                   cohorts := .raised ["NotImplementedError", "RuntimeError", "Exception"], blockwise := .notRun } = true ∧
    Spec19.violations { reference := .ok ["1", "2"], mapReduce := .ok ["1", "2"], auto := .raised ["AssertionError", "Exception"],
                        cohorts := .ok ["1", "3"], blockwise := .notRun }
      = ["internal-error:auto", "wrong-answer:cohorts", "auto-fails-where-map-reduce-succeeds",
         "cohorts-neither-matches-nor-refused"] := by decide +kernel

end Flox.C19
