/-
  C15 — `flox.xarray.xarray_reduce` agrees with xarray's own groupby: dimension order, coordinates, the reduction that is
  applied (skipna).  PARTIAL: values, attrs and xarray's internals (`apply_ufunc`, `broadcast`, `concat`) are not modelled;
  they are compared by execution in harness/props_xarray.py against native xarray with flox disabled.

  Model : `Flox.XDims.varDims` / `coordsOut` / `resolveFunc` (FloxModel/XDims.lean) – the dimension bookkeeping of
          xarray_reduce, bug for bug: grouper_dims, dim_tuple, broadcast, the plain-reduction shortcut, missing_dim
          pass-through, apply_ufunc's `broadcast dims ++ output core dims`, `<name>_bins`, and `_restore_dim_order`
          as a stable sort by `lookup_order`.
  Spec  : `nativeVarDims` / `nativeCoords` – the rule of `obj.groupby(...).<func>(dim=…)` (same file, last section).
  The theorems hold for every dims list (no size bound; induction over the lists).
-/
import FloxProofs.XDimsMain
import FloxModel.Generated.XSkipna

namespace Flox.C15
open Flox.XDims

/-! ### dimension order -/

/-- `_restore_dim_order` on a DataArray grouped by ONE 1-D, un-binned grouper along `d`: whatever the order of the
    object's dims `v` and whatever other dims `t` are reduced, the group dim takes exactly the place of `d` -/
theorem group_dim_takes_place_of_grouper_dim (v t : List Dim) (g d : Dim) (bn : String) (hv : v.Nodup) (hd : d ∈ v) (hdt : d ∈ t)
    (hg : g ∈ v → g = d) :
    restore (v.filter (· ∉ t) ++ [g]) v ⟨g, [d], false, bn⟩ false =
      v.filterMap (fun x => if x = d then some g else if x ∈ t then none else some x) :=
  restore_in_place v t g d bn hv hd hdt hg

example : restore (["a", "b", "c"].filter (· ∉ ["b"]) ++ ["lab"]) ["a", "b", "c"] ⟨"lab", ["b"], false, "lab_bins"⟩ false
    = ["a", "lab", "c"] := by decide +kernel

/-- inside a Dataset the group dim of a 1-D un-binned grouper comes first (`no_groupby_reorder`), as with native `concat` -/
theorem group_dim_first_in_dataset (v t : List Dim) (g d : Dim) (bn : String) (hv : v.Nodup) (hg : g ∉ v.filter (· ∉ t)) :
    restore (v.filter (· ∉ t) ++ [g]) v ⟨g, [d], false, bn⟩ true = g :: v.filter (· ∉ t) :=
  restore_first v t g d bn hv hg

/-- a grouper that is not 1-D: the group dim comes last (native: the object is stacked, the stacked dim is last) -/
theorem group_dim_last_for_nd_grouper (v t : List Dim) (name gn : Dim) (ds : List Dim) (b : Bool) (hv : v.Nodup)
    (hds : ds.length ≠ 1) (hg : gn ∉ v) :
    sortByKey (lookupKey v name ds b) (v.filter (· ∉ t) ++ [gn]) = v.filter (· ∉ t) ++ [gn] :=
  restore_last v t name gn ds b hv hds hg

/-- THE PROPERTY on the metadata model (partial: under the named restrictions of `Supported`, each shown necessary below):
    for every call, every dims list of every variable and every choice of reduced dims, the dims of every result
    variable are those of native xarray's groupby, in the same order.

    Full statement (false on the unchanged tree, see the counterexamples):
      ∀ c t, dimTuple c = .ok t → ∀ v ∈ c.vars, varDims c t v.1 v.2 = .ok (nativeVarDims c v.2) -/
theorem xdims_eq_native_partial (c : Call) (t : List Dim) (ht : dimTuple c = .ok t) (S : Supported c t)
    (v : String × List Dim) (hv : v ∈ c.vars) : varDims c t v.1 v.2 = .ok (nativeVarDims c v.2) :=
  xdims_eq_native c t ht S v hv

/-- the reduced dims are native's: `dim=None` → the grouper's dims, `...` → all dims, explicit → as given -/
theorem reduced_dims_eq_native (c : Call) (t : List Dim) (ht : dimTuple c = .ok t) : t = nativeReduced c :=
  dimTuple_native c t ht

/-- coordinates of the result = native's: those without a reduced dim, plus the group coordinates (minus the
    un-indexed grouped dims) -/
theorem coords_eq_native (c : Call) (t : List Dim) (hnat : t = nativeReduced c)
    (hbins : c.groupers.any (·.isbin) = true → t.all (· ∉ grouperDims c.groupers) = false) :
    coordsOut c t = nativeCoords c := by
  unfold coordsOut nativeCoords shortcut
  rw [← hnat]
  by_cases hbin : c.groupers.any (·.isbin) = true
  · simp only [hbin, hbins hbin, Bool.not_true, Bool.and_false, Bool.false_eq_true, if_false]
  · simp only [Bool.not_eq_true] at hbin
    simp only [hbin, Bool.not_false, Bool.and_true]

/-- a concrete supported call (3-D DataArray in "b a c" order, coordinate grouper along `a`, dim=None): non-vacuity -/
def exDA : Call :=
  { isDataset := false, objDims := ["b", "a", "c"], vars := [("v", ["b", "a", "c"])],
    coords := [⟨"a", ["a"]⟩, ⟨"lab", ["a"]⟩, ⟨"nd", ["c"]⟩, ⟨"sc", []⟩], unindexed := [],
    groupers := [⟨"lab", ["a"], false, "lab_bins"⟩], dim := .none }

example : dimTuple exDA = .ok ["a"] ∧ varDims exDA ["a"] "v" ["b", "a", "c"] = .ok ["b", "lab", "c"] ∧
    nativeVarDims exDA ["b", "a", "c"] = ["b", "lab", "c"] ∧ coordsOut exDA ["a"] = ["nd", "sc", "lab"] := by
  refine ⟨by decide +kernel, by decide +kernel, by decide +kernel, by decide +kernel⟩

example : Supported exDA ["a"] where
  noBroadcast := by decide +kernel
  varsNodup := by decide +kernel
  groupNamesFresh := by decide +kernel
  binsReduceGrouperDim := by decide +kernel
  shortcutOneDim := by decide +kernel
  nativeDefined := fun _ => Or.inl ⟨_, _, rfl, rfl⟩
  groupDimRecognised := by
    intro g hg _
    have : g = ⟨"lab", ["a"], false, "lab_bins"⟩ := by
      have h : [(⟨"lab", ["a"], false, "lab_bins"⟩ : Grouper)] = [g] := hg
      exact (List.cons.inj h).1.symm
    subst this
    exact ⟨fun h => absurd h (by decide), fun _ _ => rfl⟩
  passThroughOneGrouper := fun _ _ _ _ => rfl
  coreDimsPresent := by decide +kernel

/-- a supported Dataset call with a pass-through variable -/
def exDS : Call :=
  { isDataset := true, objDims := ["x", "y"], vars := [("a", ["y", "x"]), ("b", ["x"])],
    coords := [], unindexed := [], groupers := [⟨"lab", ["x"], false, "lab_bins"⟩], dim := .explicit ["x", "y"] }

example : allDims { exDS with dim := .none } = .ok [("a", ["lab", "y"]), ("b", ["lab"])] := by decide +kernel

/-! ### the restrictions are necessary: counterexamples on the model (each reproduced on the real code, KNOWN_FINDINGS C15-F…) -/

/-- C15-F1: a BINNED 1-D grouper on a DataArray: `lookup_order` compares with `by.name`, the dim is called `<name>_bins`,
    so it is sent to the end; native puts it in the place of the grouper's dim -/
theorem bins_dim_last_counterexample :
    let c : Call := { isDataset := false, objDims := ["x", "y"], vars := [("v", ["x", "y"])], coords := [], unindexed := [],
                      groupers := [⟨"lab", ["x"], true, "lab_bins"⟩], dim := .none }
    dimTuple c = .ok ["x"] ∧ varDims c ["x"] "v" ["x", "y"] = .ok ["y", "lab_bins"] ∧
      nativeVarDims c ["x", "y"] = ["lab_bins", "y"] := by
  refine ⟨by decide +kernel, by decide +kernel, by decide +kernel⟩

/-- C15-F1: a 2-D grouper in a Dataset: `by.ndim == 1` fails, the group dim goes last; native `concat` puts it first -/
theorem dataset_nd_grouper_counterexample :
    let c : Call := { isDataset := true, objDims := ["x", "y", "z"], vars := [("v", ["x", "y", "z"])], coords := [],
                      unindexed := [], groupers := [⟨"lab", ["x", "y"], false, "lab_bins"⟩], dim := .none }
    varDims c ["x", "y"] "v" ["x", "y", "z"] = .ok ["z", "lab"] ∧ nativeVarDims c ["x", "y", "z"] = ["lab", "z"] := by
  refine ⟨by decide +kernel, by decide +kernel⟩

/-- former finding C15-F4 (repaired in /repo): `dim=...` while grouping by a dimension coordinate now reduces every
    dim, as native does, and the call is no longer a plain reduction -/
theorem ellipsis_dimension_coordinate_reduces_all :
    let c : Call := { isDataset := false, objDims := ["x", "y"], vars := [("v", ["x", "y"])], coords := [⟨"x", ["x"]⟩],
                      unindexed := [], groupers := [⟨"x", ["x"], false, "x_bins"⟩], dim := .ellipsis }
    dimTuple c = .ok ["x", "y"] ∧ nativeReduced c = ["x", "y"] ∧ shortcut c ["x", "y"] = false ∧
      varDims c ["x", "y"] "v" ["x", "y"] = .ok (nativeVarDims c ["x", "y"]) := by
  refine ⟨by decide +kernel, by decide +kernel, by decide +kernel, by decide +kernel⟩

/-- C15-F6: a Dataset variable having some but not all of the reduced dims (no broadcast needed): apply_ufunc raises -/
theorem missing_core_dims_counterexample :
    let c : Call := { isDataset := true, objDims := ["x", "y"], vars := [("a", ["x", "y"]), ("b", ["x"])], coords := [],
                      unindexed := [], groupers := [⟨"lab", ["x"], false, "lab_bins"⟩], dim := .explicit ["x", "y"] }
    allDims c = .error (.missingCoreDims "b") ∧ nativeVarDims c ["x"] = ["lab"] := by
  refine ⟨by decide +kernel, by decide +kernel⟩

/-- C15-F7: several groupers and a Dataset that needs broadcasting: `xr.broadcast` transposes every variable to the
    Dataset's dim order and nothing restores the variable's own order (`nby == 1` guard) -/
theorem several_groupers_broadcast_order_counterexample :
    let c : Call := { isDataset := true, objDims := ["y", "z", "w"], vars := [("v1", ["w", "z", "y"]), ("v2", ["y"])],
                      coords := [], unindexed := [], groupers := [⟨"lab", ["w"], false, "lab_bins"⟩, ⟨"lab2", ["w"], false, "lab2_bins"⟩], dim := .none }
    varDims c ["w"] "v1" ["w", "z", "y"] = .ok ["y", "z", "lab", "lab2"] ∧
      nativeVarDims c ["w", "z", "y"] = ["z", "y", "lab", "lab2"] := by
  refine ⟨by decide +kernel, by decide +kernel⟩

/-- convention (k): in the plain-reduction shortcut flox keeps the object's order, native moves a 2-D grouper's dims last -/
theorem shortcut_nd_grouper_order_counterexample :
    let c : Call := { isDataset := false, objDims := ["y", "z", "w", "x"], vars := [("v", ["y", "z", "w", "x"])],
                      coords := [], unindexed := [], groupers := [⟨"lab", ["x", "w"], false, "lab_bins"⟩], dim := .explicit ["z"] }
    varDims c ["z"] "v" ["y", "z", "w", "x"] = .ok ["y", "w", "x"] ∧ nativeVarDims c ["y", "z", "w", "x"] = ["y", "x", "w"] := by
  refine ⟨by decide +kernel, by decide +kernel⟩

/-- convention (l): a pass-through variable gets the group dims in front; native appends them for several groupers -/
theorem passthrough_several_groupers_order_counterexample :
    let c : Call := { isDataset := true, objDims := ["x", "z", "w"], vars := [("v0", ["x", "w", "z"]), ("v1", ["x"])],
                      coords := [], unindexed := [], groupers := [⟨"lab", ["z"], false, "lab_bins"⟩, ⟨"lab2", ["w"], false, "lab2_bins"⟩], dim := .none }
    varDims c ["z", "w"] "v1" ["x"] = .ok ["lab", "lab2", "x"] ∧ nativeVarDims c ["x"] = ["x", "lab", "lab2"] := by
  refine ⟨by decide +kernel, by decide +kernel⟩

/-- convention (j): binning with no reduced dim among the grouper's dims: native does a plain reduction (no bin dim),
    flox deliberately does not -/
theorem bins_without_grouper_dim_counterexample :
    let c : Call := { isDataset := false, objDims := ["x", "y"], vars := [("v", ["x", "y"])], coords := [], unindexed := [],
                      groupers := [⟨"lab", ["x"], true, "lab_bins"⟩], dim := .explicit ["y"] }
    varDims c ["y"] "v" ["x", "y"] = .ok ["x", "lab_bins"] ∧ nativeVarDims c ["x", "y"] = ["x"] := by
  refine ⟨by decide +kernel, by decide +kernel⟩

/-! ### skipna → nan-variant -/

/-- the reduction name that reaches `groupby_reduce` inside the wrapper, for every registered reduction × dtype kind
    (f i u b c O M m) × skipna ∈ {None, True, False}: the model's rule equals what the REAL wrapper hands over
    (table recorded by the translator on every run by intercepting `flox.xarray.groupby_reduce`) -/
theorem skipna_resolution :
    ∀ r ∈ Flox.Generated.xskipnaRows, resolveFunc r.1 r.2.1 r.2.2.1 = r.2.2.2 := by decide +kernel

/-- in words: float / complex / object data skip NaN by default, everything else only on request, counting reductions
    never change and refuse a truthy skipna -/
theorem skipna_rule (base : String) (kind : Char) (hc : base ≠ "all" ∧ base ≠ "any" ∧ base ≠ "count") :
    resolveFunc ⟨false, base⟩ kind (some true) = some ⟨true, base⟩ ∧
    resolveFunc ⟨false, base⟩ kind (some false) = some ⟨false, base⟩ ∧
    (resolveFunc ⟨false, base⟩ kind none = some ⟨true, base⟩ ↔ (kind = 'c' ∨ kind = 'f' ∨ kind = 'O')) := by
  obtain ⟨h1, h2, h3⟩ := hc
  refine ⟨by simp [resolveFunc, h1, h2, h3], by simp [resolveFunc], ?_⟩
  by_cases hk : kind = 'c' ∨ kind = 'f' ∨ kind = 'O'
  · simp [resolveFunc, h1, h2, h3, hk]
  · simp [resolveFunc, hk]

example : Flox.Generated.xskipnaRows.length > 700 := by decide +kernel

end Flox.C15
