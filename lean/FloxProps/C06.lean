/-
  C06 — position-sensitive reductions respect global positions across chunk boundaries.

  These combines are NOT commutative: correctness depends on blocks being combined in array order at every level of
  the tree, and (arg-reductions) on per-block indices being global ones.  What is proved:

    §1  arg-reductions.  The chunk stage stores per block and label the pair (extreme value, GLOBAL index of its first
        occurrence); `_grouped_combine` runs (max, argmax) / (min, argmin) over the stacked pairs in block order.
        "Leftmost best pair" is associative (`pick1_flatten`), hence the PAIR LAWS: combining the per-block pairs gives
        (extreme over all members, smallest global index attaining it) – for `argmax` / `argmin` unconditionally, for
        `nanargmax` / `nanargmin` under `HArgFill` (and FALSE without it: a finding, since repaired in the library).
        The pair laws are per label; the end-to-end statement for arg-reductions through `runKnown` is checked on
        concrete inputs only (see the `example`s), not proved in general.
    §2  `nanfirst` / `nanlast`: order-aware decomposition law (no commutativity used); end to end through
        `_simple_combine` (float data: C02 §1–§4 apply, the shapes `simple nanfirst nanfirst NaN` /
        `simple nanlast nanlast NaN` are built-in columns) and through `_grouped_combine` (non-float data: C02 §5;
        integer blueprint with `INT_MIN` fill: the combined intermediates, `mapreduce_sparse_intdata_partial`)
    §3  cohorts: block lists must be in ARRAY ORDER (`CohortsSound.blocks_asc`), and this is necessary

  Vocabulary:
    `Grp.VI`                      a (value, global index) pair, both `Val`
    `Grp.pick1 k ps`              the leftmost pair of `ps` whose value is best for the arg kernel `k`
    `Grp.blockPair k junk ps`     what the chunk stage stores for a label whose member pairs in the block are `ps`:
                                  (`blockVal` of the value column, index selected by the arg kernel; `junk` = the index
                                  the engine reports when no member is left after dropping NaN)
    `Grp.combinePair k junk qs`   what `_grouped_combine` computes from the stacked per-block pairs `qs`
    `Grp.HArgFill k vs`           some member of `vs` is neither NaN nor the value column's fill `∓inf`

  Property theorems only (helper lemmas live in FloxProofs).
-/
import FloxProofs.Columns
import FloxProofs.ArgReduce
import FloxProofs.ArgReduceExamples
import FloxProofs.Grouped
import FloxProofs.GroupedExamples
import FloxProofs.Cohorts
import FloxProofs.CohortsExamples
import FloxProofs.TimeFills

namespace Flox.C06

/-! ## §1 arg-reductions -/

/-- **associativity of "leftmost best"**: picking the leftmost best pair per block and then among the blocks' winners
    (in block order) is picking once over the concatenation – for all four arg kernels, NaN values included (the order
    is a strict weak order with NaN as top resp. bottom element).  This is what makes ties across chunk boundaries
    resolve to the FIRST occurrence in the whole array, at every tree depth. -/
theorem pick1_flatten (k : Kernel) (pss : List (List Grp.VI)) (hne : pss ≠ []) (hall : ∀ ps ∈ pss, ps ≠ []) :
    Grp.pick1 k (pss.map (Grp.pick1 k)) = Grp.pick1 k pss.flatten :=
  Grp.pick1_flatten k pss hne hall

/-- **Pair law, `argmax` / `argmin`** – no hypothesis on the data: combining the per-block (extreme, global index of
    its first occurrence) pairs in block order with (max, argmax) gives the pair of the concatenated members.
    (`junkB`, `junkC`, `junk` are never used: every listed block contains the label, `hall`.) -/
theorem pairLaw_arg (k : Kernel) (hk : k = .argmax ∨ k = .argmin) (junkB : List Grp.VI → Val) (junkC junk : Val)
    (pss : List (List Grp.VI)) (hne : pss ≠ []) (hall : ∀ ps ∈ pss, ps ≠ []) :
    Grp.combinePair k junkC (pss.map fun ps => Grp.blockPair k (junkB ps) ps) = Grp.blockPair k junk pss.flatten :=
  Grp.pairLaw_arg k hk junkB junkC junk pss hne hall

/-- **Pair law, `nanargmax` / `nanargmin`**, blueprint as modelled: chunk `(nanmax, nanargmax)`, combine
    `(max, argmax)`, value fill `-inf` (mirror image for `nanargmin`).  A block in which all members of the label are
    NaN contributes the junk pair (`-inf`, `junkB ps`) – in flox the global index of the block's first element,
    whatever its label.

    Narrower than the property: `H_argfill` – the label has a non-NaN member different from `-inf`.  It is necessary:
    `nanargmax_grouped_counterexample` (the junk pair ties with a genuine `-inf` and wins by position).  The real
    library was REPAIRED after this finding: the registry's combine for `nanargmax` / `nanargmin` is now
    `(nanmax, nanargmax)` with a NaN value fill, so all-NaN blocks never win; the pair law under `HArgFill` documents the
    old blueprint, which is the one in the model. -/
theorem pairLaw_nanarg (k : Kernel) (hk : k = .nanargmax ∨ k = .nanargmin) (junkB : List Grp.VI → Val)
    (junkC junk : Val) (pss : List (List Grp.VI)) (hne : pss ≠ [])
    (H_argfill : Grp.HArgFill k (pss.flatten.map (·.1))) :
    Grp.combinePair k junkC (pss.map fun ps => Grp.blockPair k (junkB ps) ps) = Grp.blockPair k junk pss.flatten :=
  Grp.pairLaw_nanarg k hk junkB junkC junk pss hne H_argfill

/-- **FINDING (model and, before the repair, the real library): `nanargmax` through `_grouped_combine` returns a wrong
    index** when a label is all-NaN in one block and its genuine maximum is `-inf`.  Data `[nan, nan | nan, -inf]`, all
    label 0: flox answers 0 (a NaN element), NumPy's `nanargmax` answers 3, and so does flox with a single block.
    Every hypothesis one could reasonably ask for holds; only `HArgFill` fails. -/
theorem nanargmax_grouped_counterexample :
    CodesOK [0, 0, 0, 0] 1
    ∧ ¬ Grp.HArgFill .nanargmax (members 0 [0, 0, 0, 0] [.nan, .nan, .nan, .ninf])
    ∧ runKnown (E2E.mkCall Grp.AEx.Rnanargmax .npg 1 2) (.mapreduce false) true [2, 2] (codeKeys [0, 0, 0, 0])
        [.nan, .nan, .nan, .ninf] = .ok [Val.fin 0]
    ∧ specResult .nanargmax Grp.AEx.Rnanargmax [0, 0, 0, 0] [.nan, .nan, .nan, .ninf] 1 = .ok [Val.fin 3]
    ∧ runKnown (E2E.mkCall Grp.AEx.Rnanargmax .npg 1 2) (.mapreduce false) true [4] (codeKeys [0, 0, 0, 0])
        [.nan, .nan, .nan, .ninf] = .ok [Val.fin 3] :=
  Grp.AEx.nanargmax_grouped_counterexample

/-- the junk index is the block's first element WHATEVER ITS LABEL: label 0 gets index 0, which belongs to label 1 -/
theorem nanargmax_grouped_counterexample_other_label :
    runKnown (E2E.mkCall Grp.AEx.Rnanargmax .npg 2 2) (.mapreduce false) true [2, 2] (codeKeys [1, 0, 0, 0])
        [.fin 3, .nan, .nan, .ninf] = .ok [Val.fin 0, Val.fin 0]
    ∧ specResult .nanargmax Grp.AEx.Rnanargmax [1, 0, 0, 0] [.fin 3, .nan, .nan, .ninf] 2
        = .ok [Val.fin 3, Val.fin 0] :=
  Grp.AEx.nanargmax_grouped_counterexample_other_label

/-- the mirror image for `nanargmin` and `+inf` -/
theorem nanargmin_grouped_counterexample :
    runKnown (E2E.mkCall Grp.AEx.Rnanargmin .npg 1 2) (.mapreduce false) true [2, 2] (codeKeys [0, 0, 0, 0])
        [.nan, .nan, .nan, .pinf] = .ok [Val.fin 0]
    ∧ specResult .nanargmin Grp.AEx.Rnanargmin [0, 0, 0, 0] [.nan, .nan, .nan, .pinf] 1 = .ok [Val.fin 3] :=
  Grp.AEx.nanargmin_grouped_counterexample

/-! ## §2 `nanfirst` / `nanlast` -/

/-- **order-aware decomposition**: `nanfirst` over the per-block `nanfirst` values IN BLOCK ORDER is the first non-NaN
    member of the whole group; blocks where the group is absent or all-NaN hold the fill NaN and are skipped.  No
    commutativity is used (none holds, see the `example` below). -/
theorem combine_nanfirst (parts : List (List Val)) :
    combineVal .nanfirst (parts.map (blockVal .nanfirst Val.nan)) = blockVal .nanfirst Val.nan parts.flatten :=
  Flox.combine_nanfirst parts

theorem combine_nanlast (parts : List (List Val)) :
    combineVal .nanlast (parts.map (blockVal .nanlast Val.nan)) = blockVal .nanlast Val.nan parts.flatten :=
  Flox.combine_nanlast parts

/-- and the block value is what the name says: the first / last non-NaN member in array order, NaN if there is none -/
theorem blockVal_nanfirst_nanlast (ms : List Val) :
    blockVal .nanfirst Val.nan ms = firstNonNaN ms ∧ blockVal .nanlast Val.nan ms = firstNonNaN ms.reverse :=
  ⟨Flox.blockVal_nanfirst ms, Flox.blockVal_nanlast ms⟩

/-- **`nanfirst` / `nanlast` through `_grouped_combine`, end to end** (the plan flox uses on non-float data), for a
    blueprint with a `Shape`: the instance of `C02.mapreduce_grouped_eq_spec` for `k ∈ {nanfirst, nanlast}` –
    every chunking, every `split_every`; the result is `Spec.reduce` with NumPy's `nanfirst` / `nanlast` of each
    label's members in array order. -/
theorem nanfirst_nanlast_grouped_eq_spec (R : Resolved) (k : Kernel) (hk : k = .nanfirst ∨ k = .nanlast)
    (c : Call) (n : Nat) (floatData : Bool) (chunks : List Nat) (codes : List Int) (vals : List Val)
    (hR : c.R = R) (heng : c.eng = .npg) (hn : c.ngroups = n)
    (hshape : R.shape? = some (.simple k k Val.nan)) (hcodes : CodesOK codes n) (hlen : codes.length = vals.length)
    (hne : codes ≠ []) (H_dropped : Grp.HDropped R codes vals)
    (hchunks : chunks ≠ []) (hsum : chunks.sum = codes.length)
    (hcombine : useGroupedCombine c floatData = true) :
    runKnown c (.mapreduce false) floatData chunks (codeKeys codes) vals = specResult k R codes vals n :=
  Grp.mapreduce_grouped_eq_spec R (.simple k k Val.nan) c n floatData chunks codes vals hR heng hn hshape hcodes hlen
    hne (by rcases hk with rfl | rfl <;> intro h <;> cases h) H_dropped hchunks hsum hcombine

/-- **integer-typed `nanfirst` / `nanlast`** (`_initialize_aggregation` resolves them with the intermediate fill
    `INT_MIN`, so the blueprint has no `Shape`): for ANY intermediate fill `f` and NaN-free values (integers cannot hold
    NaN), map-reduce without reindexing + `_grouped_combine` yields – for every chunking and every `split_every` – the
    found labels (`Grp.foundOf c.sort keys`: distinct non-missing labels, sorted or in order of first appearance) and
    per label the first / last member in array order (`Grp.membersK (some r) keys vals`: the values whose label is
    `r`, in array order).  PARTIAL: this is the combined intermediate; the finalization step for this blueprint is
    checked on concrete data only (`Grp.GEx`). -/
theorem mapreduce_sparse_intdata_partial (c : Call) (k : Kernel) (hk : k = .nanfirst ∨ k = .nanlast) (f : Val)
    (chunks : List Nat) (keys : List Key) (vals : List Val) (se : Nat)
    (harg : c.R.isArg = false) (hchunk : c.R.chunk = [k]) (hcombine : c.R.combine = [k])
    (hfills : c.R.interFills = [f]) (heng : c.eng = .npg)
    (hchunks : chunks ≠ []) (hsum : chunks.sum = keys.length) (hlen : keys.length = vals.length)
    (hnonan : ∀ v ∈ vals, v.isNaN = false) (hpres : presentKeys keys ≠ []) :
    groupedCombine c.R .npg c.sort (treeReduce (groupedCombine c.R .npg c.sort) se
        (blockStage c false chunks keys vals))
      = { groups := (Grp.foundOf c.sort keys).map some,
          cols := [(Grp.foundOf c.sort keys).map fun r => kEval k (Grp.membersK (some r) keys vals)] } :=
  Grp.mapreduce_sparse_intdata_partial c k hk f chunks keys vals se harg hchunk hcombine hfills heng hchunks hsum hlen
    hnonan hpres

/-! ## §3 cohorts take their blocks in array order -/

/-- **cohorts, any sound structure** (= `C02.cohorts_eq_spec`; applies to the `nanfirst` / `nanlast` shapes on float
    data).  Soundness includes `blocks_asc`: every cohort's block list is STRICTLY ASCENDING, i.e. the per-cohort tree
    sees the blocks in array order.  flox builds the lists from a sorted sparse-matrix column, so it holds; that it
    cannot be dropped is `blocks_asc_counterexample_order`. -/
theorem cohorts_eq_spec (R : Resolved) (s : Shape) (c : Call) (n : Nat) (floatData : Bool)
    (chunks : List Nat) (codes : List Int) (vals : List Val) (cs : List (List Nat × List Rat))
    (hR : c.R = R) (heng : c.eng = .npg) (hn : c.ngroups = n) (hknown : c.knownLabels = true)
    (hshape : R.shape? = some s) (hlen : codes.length = vals.length)
    (hsound : CohortsSound chunks codes n cs)
    (H_absent : ∀ co ∈ cs, ∀ g : Nat, ((g : Nat) : Rat) ∈ co.2 → HAbsent R (members (Int.ofNat g) codes vals))
    (H_minmax : HMinMax R s)
    (H_fill : HCohortFill c R n cs)
    (hsum : chunks.sum = codes.length)
    (hcombine : useGroupedCombine c floatData = false) :
    runKnown c (.cohorts cs) floatData chunks (codeKeys codes) vals = specResult s.kernel R codes vals n :=
  Flox.cohorts_eq_spec R s c n floatData chunks codes vals cs hR heng hn hknown hshape hlen hsound H_absent H_minmax
    H_fill hsum hcombine

/-- what soundness demands of the block lists, spelled out -/
theorem cohortsSound_blocks_in_array_order (chunks : List Nat) (codes : List Int) (n : Nat)
    (cs : List (List Nat × List Rat)) (h : CohortsSound chunks codes n cs) :
    ∀ co ∈ cs, co.1.Pairwise (· < ·) ∧ (∀ b ∈ co.1, b < chunks.length) :=
  fun co hco => ⟨h.blocks_asc co hco, h.blocks_lt co hco⟩

/-- **array order of a cohort's blocks is necessary**: `nanfirst` over two blocks `[1] [2]` of one label, the cohort
    lists its blocks as `[1, 0]`: the result is 2, the specification says 1 -/
theorem blocks_asc_counterexample_order :
    E2E.RnanfirstNaN.shape? = some (.simple .nanfirst .nanfirst Val.nan)
    ∧ runKnown (E2E.mkCall E2E.RnanfirstNaN .npg 1 2) (.cohorts [([1, 0], [0])]) true [1, 1] (codeKeys [0, 0])
        [Val.fin 1, Val.fin 2] = .ok [Val.fin 2]
    ∧ specResult .nanfirst E2E.RnanfirstNaN [0, 0] [Val.fin 1, Val.fin 2] 1 = .ok [Val.fin 1] :=
  E2E.blocks_asc_counterexample_order

/-! ### non-vacuity and concrete end-to-end evidence -/

/-- the pair law on three blocks with a tie across blocks (5 at global indices 2 and 4) and a NaN: NumPy's `argmax`
    propagates NaN (index 8); without the NaN the tie resolves to the first occurrence -/
example : Grp.combinePair .argmax (.fin 99) (Grp.AEx.pssA.map fun ps => Grp.blockPair .argmax (.fin 77) ps)
      = Grp.blockPair .argmax (.fin 55) Grp.AEx.pssA.flatten
    ∧ Grp.blockPair .argmax (.fin 55) Grp.AEx.pssA.flatten = (.nan, .fin 8)
    ∧ Grp.blockPair .argmax (.fin 55) (Grp.AEx.pssA.flatten.filter fun p => !p.1.isNaN) = (.fin 9, .fin 9)
    ∧ Grp.blockPair .argmax (.fin 55) ((Grp.AEx.pssA.flatten.filter fun p => !p.1.isNaN).dropLast) = (.fin 5, .fin 2) :=
  ⟨pairLaw_arg .argmax (Or.inl rfl) (fun _ => .fin 77) (.fin 99) (.fin 55) Grp.AEx.pssA (by decide)
    (by decide +kernel), by decide +kernel, by decide +kernel, by decide +kernel⟩

/-- `pairLaw_nanarg` applies with an all-NaN first block; ties are broken to the left (3 at global indices 2 and 5) -/
example : Grp.combinePair .nanargmax (.fin 99)
      (Grp.AEx.pssN.map fun ps => Grp.blockPair .nanargmax ((ps.headD (.nan, .nan)).2) ps)
      = Grp.blockPair .nanargmax (.fin 55) Grp.AEx.pssN.flatten
    ∧ Grp.blockPair .nanargmax (.fin 55) Grp.AEx.pssN.flatten = (.fin 3, .fin 2) :=
  ⟨pairLaw_nanarg .nanargmax (Or.inl rfl) (fun ps => (ps.headD (.nan, .nan)).2) (.fin 99) (.fin 55) Grp.AEx.pssN
    (by decide) (by decide +kernel), by decide +kernel⟩

open E2E Grp.AEx in
/-- C06 end to end on concrete inputs (NOT a general proof): three chunkings / trees of `argmax` over 9 elements, 3
    labels + a dropped element + an absent label, ties across chunk boundaries – all agree with the specification, and
    the indices are global ones -/
example : runKnown (mkCall Rargmax .npg 4 2) (.mapreduce false) true [3, 3, 3] (codeKeys c9) v9
      = specResult .argmax Rargmax c9 v9 4
    ∧ runKnown (mkCall Rargmax .npg 4 2) (.mapreduce false) true [1, 1, 1, 1, 1, 1, 1, 1, 1] (codeKeys c9) v9
      = specResult .argmax Rargmax c9 v9 4
    ∧ runKnown (mkCall Rargmax .npg 4 3) (.mapreduce false) true [9] (codeKeys c9) v9
      = specResult .argmax Rargmax c9 v9 4
    ∧ specResult .argmax Rargmax c9 v9 4 = .ok [Val.fin 2, Val.fin 1, Val.fin 8, Val.fin (-1)] := by
  decide +kernel

open E2E Grp.AEx in
/-- `nanargmax` with all-NaN blocks but every label's maximum above `-inf`: correct -/
example : runKnown (mkCall Rnanargmax .npg 3 2) (.mapreduce false) true [1, 3, 3, 2] (codeKeys c9) v9n
      = specResult .nanargmax Rnanargmax c9 v9n 3
    ∧ specResult .nanargmax Rnanargmax c9 v9n 3 = .ok [Val.fin 2, Val.fin 6, Val.fin 8] := by
  decide +kernel

open E2E Grp.GEx in
/-- `nanlast` on non-float data through `_grouped_combine`, 4 blocks, binary tree -/
example : runKnown (mkCall Rnanlast .npg 4 2) (.mapreduce false) false [2, 1, 3, 2] (codeKeys codes8) vals8
      = specResult .nanlast Rnanlast codes8 vals8 4
    ∧ specResult .nanlast Rnanlast codes8 vals8 4 = .ok [Val.fin 2, Val.fin (-7), Val.fin 5, Val.nan] :=
  ⟨nanfirst_nanlast_grouped_eq_spec Rnanlast .nanlast (Or.inr rfl) (mkCall Rnanlast .npg 4 2) 4 false
      [2, 1, 3, 2] codes8 vals8 rfl rfl rfl (by decide +kernel) codes8_ok rfl (by decide)
      (by decide +kernel) (by decide) rfl (by decide +kernel), by decide +kernel⟩

/-- order matters: no commutativity is available (and none is used) -/
example : combineVal .nanfirst ([[Val.fin 1], [Val.fin 2]].map (blockVal .nanfirst Val.nan))
    ≠ combineVal .nanfirst ([[Val.fin 2], [Val.fin 1]].map (blockVal .nanfirst Val.nan)) := by decide +kernel


/-! ## time dtypes: the missing-value fill is NaT (regenerated table, /repo 89983d8)

  `nanfirst` / `nanlast` (and every other reduction whose blueprint uses the missing-value sentinel `dtypes.NA` as an
  intermediate or final fill) on datetime64 / timedelta64 data: a group that is absent from a block must contribute the
  MISSING value to the order-aware combine (`combine_nanfirst/nanlast` above skip it), never a genuine time value.  The
  table is rebuilt on every run by calling `_initialize_aggregation` for both time dtypes. -/

/-- for every reduction of the registry and both time dtypes: blueprint fill `NA` ⇒ resolved fill `NaT` -/
theorem time_missing_fill_is_NaT (r : TimeFillRow) (hr : r ∈ Generated.timeFillRows) (hok : r.ok = true) (i : Nat)
    (b x : String) (hb : r.blueprint[i]? = some b) (hx : r.resolved[i]? = some x) (hna : b = "NA") : x = "NaT" :=
  TimeFills.na_is_nat r hr hok i b x hb hx hna

/-- … while the ±infinity sentinels (identities of min / max) stay genuine, comparable values -/
theorem time_infinity_fill_is_value : Generated.timeFillRows.all TimeFillRow.infIsValue = true :=
  TimeFills.all_inf_is_value

/-- non-vacuity: the rows of `nanfirst` / `nanlast` exist, are accepted, and consist of `NA` sentinels only -/
example : (Generated.timeFillRows.filter fun r => (r.func == "nanfirst" || r.func == "nanlast") && r.ok
            && r.blueprint.all (· == "NA")).length = 4 := by decide +kernel

end Flox.C06
