/-
  C04 — the block / combine / finalize decomposition of every built-in aggregation is exact, and a block in which the
  group is absent (or present only as NaN) is neutral.

    §1  one intermediate column: combine (per-block intermediates) = intermediate (concatenated members), for every
        split of a group's members into ordered parts – empty and all-NaN parts included
    §2  absent / all-NaN blocks are neutral
    §3  finalizers: `sum / count = mean`, one-pass variance from (sum of squares, sum, count) = two-pass `np.var(ddof)`
    §4  arg-reductions: the (value, index) PAIR law
    §5  tie to the live registry: every `_initialize_aggregation` row regenerated from the running code resolves to a
        blueprint all of whose columns obey §1/§2 and whose finalizer is one of §3

  Vocabulary (FloxModel / FloxProofs):
    `blockVal k f ms`     what the block stage stores for a group whose members inside the block are `ms` (chunk kernel
                          `k`; the intermediate fill `f` when `ms = []`; for NaN-skipping kernels on all-NaN members the
                          kernel's identity for nansum / nanprod / count / nansum-of-squares and `f` otherwise)
    `combineVal c xs`     `_simple_combine`: the NumPy function named by the combine kernel `c` over the stacked
                          per-block values `xs`
    `floatColumns`        the 15 (chunk kernel, combine kernel, intermediate fill) triples of the built-in blueprints on
                          floating data: sum, nansum, prod, nanprod, max, nanmax, min, nanmin, count (`nanlen`),
                          sum-of-squares, nansum-of-squares, all, any, nanfirst, nanlast
    `kEval k ms`          the NumPy reduction `k` of the member list `ms` (the specification side)
    `onepass ddof sq s c` flox's `_var_finalize`: `(sq - s*s/c) / (c - ddof)`, NaN when `c ≤ ddof`

  Arithmetic is exact (`Val` = rationals + NaN + ±inf with IEEE rules): rounding is not modelled, see C20.
  Property theorems only (helper lemmas live in FloxProofs).  User-defined `Aggregation` objects: see the last section.
-/
import FloxProofs.Columns
import FloxProofs.Finalize
import FloxProofs.ArgReduce
import FloxProofs.ArgReduceExamples
import FloxProofs.TableShape

namespace Flox.C04

/-! ## §1 chunk / combine decomposition of one column -/

/-- **Decomposition law.**  For every built-in column `(k, c, f)` and EVERY split `parts` of a group's members into at
    least one ordered part (parts may be empty = the group is absent from that block, or all-NaN), combining the
    per-part intermediates with `c` gives exactly the intermediate of the concatenated members.
    `parts ≠ []` is necessary for `nanmax` / `nanmin` only (NumPy's `nanmax` of nothing is NaN, the fill is `-inf`);
    see the `example` at the end. -/
theorem combine_parts (k c : Kernel) (f : Val) (h : (k, c, f) ∈ floatColumns)
    (parts : List (List Val)) (hne : parts ≠ []) :
    combineVal c (parts.map (blockVal k f)) = blockVal k f parts.flatten :=
  Flox.combine_parts k c f h parts hne

/-- the order-sensitive columns, spelled out: `nanfirst` / `nanlast` of the per-block `nanfirst` / `nanlast` values, in
    block order, is the first / last non-NaN member of the whole group (no commutativity is used – none holds) -/
theorem combine_nanfirst (parts : List (List Val)) :
    combineVal .nanfirst (parts.map (blockVal .nanfirst Val.nan)) = blockVal .nanfirst Val.nan parts.flatten :=
  Flox.combine_nanfirst parts

theorem combine_nanlast (parts : List (List Val)) :
    combineVal .nanlast (parts.map (blockVal .nanlast Val.nan)) = blockVal .nanlast Val.nan parts.flatten :=
  Flox.combine_nanlast parts

/-! ## §2 absent and all-NaN blocks are neutral -/

/-- **Absent / all-NaN blocks are neutral.**  Inserting, anywhere among the blocks (`l₁` before, `l₂` after), a block
    `p` in which the group is absent (`p = []`), or – for a NaN-skipping chunk kernel – one in which all its members
    are NaN, does not change the combined value.  `l₁ ++ l₂ ≠ []` (there is at least one other block) is necessary
    for `nanmax` / `nanmin`, see the `example` at the end. -/
theorem absent_block_neutral (k c : Kernel) (f : Val) (h : (k, c, f) ∈ floatColumns)
    (p : List Val) (hp : p = [] ∨ (k.skipsNaN = true ∧ ∀ x ∈ p, x.isNaN = true))
    (l₁ l₂ : List (List Val)) (hne : l₁ ++ l₂ ≠ []) :
    combineVal c ((l₁ ++ p :: l₂).map (blockVal k f)) = combineVal c ((l₁ ++ l₂).map (blockVal k f)) :=
  Flox.absent_block_neutral k c f h p hp l₁ l₂ hne

/-- an all-NaN block is interchangeable with an absent block (no side condition on the other blocks): the chunk
    stage stores the same intermediate for both -/
theorem allNaN_block_eq_absent (k c : Kernel) (f : Val) (h : (k, c, f) ∈ floatColumns)
    (hs : k.skipsNaN = true) (p : List Val) (hp : ∀ x ∈ p, x.isNaN = true)
    (l₁ l₂ : List (List Val)) :
    combineVal c ((l₁ ++ p :: l₂).map (blockVal k f)) = combineVal c ((l₁ ++ [] :: l₂).map (blockVal k f)) :=
  Flox.allNaN_block_eq_absent k c f h hs p hp l₁ l₂

/-- the same, phrased on the result: the combined value only depends on the concatenated members of the other
    blocks -/
theorem absent_block_neutral_value (k c : Kernel) (f : Val) (h : (k, c, f) ∈ floatColumns)
    (p : List Val) (hp : p = [] ∨ (k.skipsNaN = true ∧ ∀ x ∈ p, x.isNaN = true))
    (l₁ l₂ : List (List Val)) (hne : l₁ ++ l₂ ≠ []) :
    combineVal c ((l₁ ++ p :: l₂).map (blockVal k f)) = blockVal k f (l₁ ++ l₂).flatten :=
  Flox.absent_block_neutral' k c f h p hp l₁ l₂ hne

/-! ## §3 finalizers (for EVERY member list: empty, with NaN, with ±inf) -/

/-- `mean`: stored `sum` / stored count = `np.mean` -/
theorem mean_finalize (ms : List Val) :
    Val.div (blockVal .sum Val.zero ms) (blockVal .nanlen Val.zero ms) = kEval .mean ms :=
  Flox.mean_finalize ms

/-- `nanmean`: stored `nansum` / stored count = `np.nanmean` -/
theorem nanmean_finalize (ms : List Val) :
    Val.div (blockVal .nansum Val.zero ms) (blockVal .nanlen Val.zero ms) = kEval .nanmean ms :=
  Flox.nanmean_finalize ms

/-- `var` / `std`: the one-pass formula on the stored (sum of squares, sum, count) = two-pass `np.var(ddof)`, NaN when
    `count ≤ ddof`.  (The model returns the variance for `std` as well; the square root is outside exact arithmetic.) -/
theorem var_finalize (ddof : Nat) (ms : List Val) :
    onepass ddof (blockVal .sumsq Val.zero ms) (blockVal .sum Val.zero ms) (blockVal .nanlen Val.zero ms)
      = kEval (.var ddof) ms :=
  Flox.var_finalize ddof ms

/-- `nanvar` / `nanstd` -/
theorem nanvar_finalize (ddof : Nat) (ms : List Val) :
    onepass ddof (blockVal .nansumsq Val.zero ms) (blockVal .nansum Val.zero ms) (blockVal .nanlen Val.zero ms)
      = kEval (.nanvar ddof) ms :=
  Flox.nanvar_finalize ddof ms

/-- whole-pipeline form for one group: split the members into parts, store the three `var` columns per part, combine
    each column with `sum`, finalize – the result is `np.var(ddof)` of all members -/
theorem var_split_combine_finalize (ddof : Nat) (parts : List (List Val)) (hne : parts ≠ []) :
    onepass ddof (combineVal .sum (parts.map (blockVal .sumsq Val.zero)))
        (combineVal .sum (parts.map (blockVal .sum Val.zero)))
        (combineVal .sum (parts.map (blockVal .nanlen Val.zero)))
      = kEval (.var ddof) parts.flatten := by
  rw [Flox.combine_parts .sumsq .sum Val.zero (by decide) parts hne,
    Flox.combine_parts .sum .sum Val.zero (by decide) parts hne,
    Flox.combine_parts .nanlen .sum Val.zero (by decide) parts hne]
  exact Flox.var_finalize ddof parts.flatten

/-- the same for `nanmean` -/
theorem nanmean_split_combine_finalize (parts : List (List Val)) (hne : parts ≠ []) :
    Val.div (combineVal .sum (parts.map (blockVal .nansum Val.zero)))
        (combineVal .sum (parts.map (blockVal .nanlen Val.zero)))
      = kEval .nanmean parts.flatten := by
  rw [Flox.combine_parts .nansum .sum Val.zero (by decide) parts hne,
    Flox.combine_parts .nanlen .sum Val.zero (by decide) parts hne]
  exact Flox.nanmean_finalize parts.flatten

/-! ## §4 arg-reductions: the pair law

  The chunk stage stores, per block and label, `Grp.blockPair k junk ps` = (extreme value of the label's members in the
  block, GLOBAL index of its first occurrence), where `ps : List (Val × Val)` are the (value, global index) pairs of
  the members and `junk` is whatever index the engine reports when no member is left after dropping NaN.
  `_grouped_combine` computes `Grp.combinePair k junk qs` = (max, argmax) resp. (min, argmin) over the stacked
  per-block pairs `qs`, in block order. -/

/-- **Pair law, `argmax` / `argmin`** – no hypothesis on the data (NaN members included: NumPy's `argmax` treats NaN as
    the greatest element): combining the per-block pairs gives the pair of the concatenated members, i.e. (extreme
    over all, smallest global index attaining it).  `hall`: the label occurs in every listed block. -/
theorem pairLaw_arg (k : Kernel) (hk : k = .argmax ∨ k = .argmin) (junkB : List Grp.VI → Val) (junkC junk : Val)
    (pss : List (List Grp.VI)) (hne : pss ≠ []) (hall : ∀ ps ∈ pss, ps ≠ []) :
    Grp.combinePair k junkC (pss.map fun ps => Grp.blockPair k (junkB ps) ps) = Grp.blockPair k junk pss.flatten :=
  Grp.pairLaw_arg k hk junkB junkC junk pss hne hall

/-- **Pair law, `nanargmax` / `nanargmin`** for the blueprint (chunk `(nanmax, nanargmax)`, combine `(max, argmax)`,
    value fill `∓inf`).  A block in which all members of the label are NaN contributes the junk pair (`∓inf`, `junkB`).
    Narrower than the property: `Grp.HArgFill k vs` – the label has a non-NaN member different from `∓inf`.  Without
    it the law FAILS: `pairLaw_nanarg_counterexample` (the junk pair of an all-NaN block ties with a genuine `-inf`
    and wins by position).  The real library was repaired after this finding: the registry's combine for
    `nanargmax` / `nanargmin` is now `(nanmax, nanargmax)` with a NaN value fill, so all-NaN blocks never win; this
    theorem documents the blueprint as modelled. -/
theorem pairLaw_nanarg (k : Kernel) (hk : k = .nanargmax ∨ k = .nanargmin) (junkB : List Grp.VI → Val)
    (junkC junk : Val) (pss : List (List Grp.VI)) (hne : pss ≠ [])
    (H_argfill : Grp.HArgFill k (pss.flatten.map (·.1))) :
    Grp.combinePair k junkC (pss.map fun ps => Grp.blockPair k (junkB ps) ps) = Grp.blockPair k junk pss.flatten :=
  Grp.pairLaw_nanarg k hk junkB junkC junk pss hne H_argfill

/-- `HArgFill` is necessary: the label is all-NaN in the first block (junk pair `(-inf, 0)`) and its only valid member
    is a genuine `-inf` at index 3: (max, argmax) keeps the junk index 0 -/
theorem pairLaw_nanarg_counterexample :
    let pss : List (List Grp.VI) := [[(.nan, .fin 0), (.nan, .fin 1)], [(.nan, .fin 2), (.ninf, .fin 3)]]
    ¬ Grp.HArgFill .nanargmax (pss.flatten.map (·.1))
    ∧ Grp.combinePair .nanargmax (.fin 99)
        (pss.map fun ps => Grp.blockPair .nanargmax ((ps.headD (.nan, .nan)).2) ps) = (.ninf, .fin 0)
    ∧ Grp.blockPair .nanargmax (.fin 55) pss.flatten = (.ninf, .fin 3) :=
  Grp.AEx.pairLaw_nanarg_counterexample

/-! ## §5 tie to the live registry -/

/-- **Every built-in simple-combine blueprint obeys the laws.**  `Generated.initRows` is the table of
    `_initialize_aggregation` outcomes regenerated from the running library (func × dtype kind × fill kind ×
    `min_count` positivity).  Every `ok` row for floating data and one of the 17 listed reductions resolves – for any
    user fill, any `min_count` of the row's positivity, any `ddof` – to a blueprint `R` with a `Shape` `s` such that
    * the NumPy kernel of `s` is the one named by `func`;
    * EVERY intermediate column of `R` (the count column appended for `min_count > 0` included) obeys the
      decomposition law §1 and the neutrality law §2;
    * the finalizer is `none` (simple shapes), `sum / count` (mean shapes, §3) or the one-pass variance (var shapes). -/
theorem generated_rows_decompose :
    ∀ row ∈ Generated.initRows, row.ok = true → row.dkind ∈ ["f8", "f4"] →
      row.func ∈ ["sum", "nansum", "prod", "nanprod", "max", "nanmax", "min", "nanmin", "count", "mean", "nanmean",
        "var", "nanvar", "std", "nanstd", "nanfirst", "nanlast"] →
      ∀ (user : Option Val) (mc ddof : Nat), row.mcPos = decide (mc > 0) →
        ∃ R s, row.resolve user mc ddof = some R ∧ R.shape? = some s
          ∧ kernelWithDdof ddof row.func = some s.kernel
          ∧ R.chunk.length = R.combine.length ∧ R.chunk.length = R.interFills.length
          ∧ (∀ t ∈ R.chunk.zip (R.combine.zip R.interFills),
              (∀ parts : List (List Val), parts ≠ [] →
                combineVal t.2.1 (parts.map (blockVal t.1 t.2.2)) = blockVal t.1 t.2.2 parts.flatten)
              ∧ (∀ (p : List Val), (p = [] ∨ (t.1.skipsNaN = true ∧ ∀ x ∈ p, x.isNaN = true)) →
                  ∀ l₁ l₂ : List (List Val), l₁ ++ l₂ ≠ [] →
                    combineVal t.2.1 ((l₁ ++ p :: l₂).map (blockVal t.1 t.2.2))
                      = combineVal t.2.1 ((l₁ ++ l₂).map (blockVal t.1 t.2.2))))
          ∧ s.finalizeOK R.finalize = true := by
  intro row hrow hok hdk hfunc user mc ddof hmc
  obtain ⟨R, s, hf⟩ := Flox.generated_rows_have_shape row hrow hok hdk hfunc user mc ddof hmc
  have hs := (R.shape?_eq_some_iff s).mp hf.shape
  refine ⟨R, s, hf.resolve, hf.shape, hf.kernel, hs.len_combine, hs.len_interFills, ?_, hs.fin⟩
  intro t ht
  have hmem : (t.1, t.2.1, t.2.2) ∈ floatColumns := hs.cols_mem t ht
  exact ⟨fun parts hne => Flox.combine_parts _ _ _ hmem parts hne,
    fun p hp l₁ l₂ hne => Flox.absent_block_neutral _ _ _ hmem p hp l₁ l₂ hne⟩

/-- the table facts used by the end-to-end theorems (C01/C02/C05): shape, kernel, and the hypotheses `H_allnan`,
    `H_minmax`, `H_floxmean` hold for every such row (only `H_absent` is left to the caller) -/
theorem generated_rows_have_shape :
    ∀ row ∈ Generated.initRows, row.ok = true → row.dkind ∈ ["f8", "f4"] →
      row.func ∈ ["sum", "nansum", "prod", "nanprod", "max", "nanmax", "min", "nanmin", "count", "mean", "nanmean",
        "var", "nanvar", "std", "nanstd", "nanfirst", "nanlast"] →
      ∀ (user : Option Val) (mc ddof : Nat), row.mcPos = decide (mc > 0) →
        ∃ R s, row.resolve user mc ddof = some R ∧ R.shape? = some s
          ∧ kernelWithDdof ddof row.func = some s.kernel
          ∧ HAllNaN R s ∧ HMinMax R s ∧ HFloxMean R s
          ∧ R.name = row.func ∧ R.ddof = ddof
          ∧ (mc > 0 → R.minCount = mc) ∧ (mc = 0 → R.minCount ≤ 1)
          ∧ (row.userFill = "user" → R.userFill = user) := by
  intro row hrow hok hdk hfunc user mc ddof hmc
  obtain ⟨R, s, hf⟩ := Flox.generated_rows_have_shape row hrow hok hdk hfunc user mc ddof hmc
  exact ⟨R, s, hf.resolve, hf.shape, hf.kernel, hf.allnan, hf.minmax, hf.floxmean, hf.name, hf.ddof, hf.minCount,
    hf.minCount0, hf.userFill⟩

/-! ### non-vacuity -/

section
open Val

/-- 3 parts: one with a NaN, one where the group is absent, one plain – both sides computed independently by the
    kernel, for every column -/
example : ∀ t ∈ floatColumns,
    combineVal t.2.1 (exParts.map (blockVal t.1 t.2.2)) = blockVal t.1 t.2.2 exParts.flatten := by
  decide +kernel

/-- with an all-NaN part and infinities -/
example : ∀ t ∈ floatColumns,
    combineVal t.2.1 ([[nan, nan], [pinf, fin 3], [], [nan, fin 0]].map (blockVal t.1 t.2.2))
      = blockVal t.1 t.2.2 [nan, nan, pinf, fin 3, nan, fin 0] := by
  decide +kernel

example : combineVal .nanmax (exParts.map (blockVal .nanmax ninf)) = fin 5
    ∧ combineVal .nanmin (exParts.map (blockVal .nanmin pinf)) = fin (-2)
    ∧ combineVal .sum (exParts.map (blockVal .nansumsq zero)) = fin 30
    ∧ combineVal .nanlast (exParts.map (blockVal .nanlast nan)) = fin 5 := by decide +kernel

/-- `parts ≠ []` cannot be dropped from `combine_parts` (`nanmax`): -/
example : combineVal .nanmax (([] : List (List Val)).map (blockVal .nanmax ninf)) = nan
    ∧ blockVal .nanmax ninf ([] : List (List Val)).flatten = ninf := by decide +kernel

/-- `l₁ ++ l₂ ≠ []` cannot be dropped from `absent_block_neutral`: -/
example : combineVal .nanmax (([] ++ [] :: ([] : List (List Val))).map (blockVal .nanmax ninf))
    ≠ combineVal .nanmax (([] ++ ([] : List (List Val))).map (blockVal .nanmax ninf)) := by decide +kernel

/-- `var_split_combine_finalize` on `[1, -2 | | 4]`, ddof 1: both sides are 9 -/
example : onepass 1 (combineVal .sum ([[fin 1, fin (-2)], [], [fin 4]].map (blockVal .sumsq zero)))
      (combineVal .sum ([[fin 1, fin (-2)], [], [fin 4]].map (blockVal .sum zero)))
      (combineVal .sum ([[fin 1, fin (-2)], [], [fin 4]].map (blockVal .nanlen zero))) = fin 9
    ∧ kEval (.var 1) [fin 1, fin (-2), fin 4] = fin 9 := by decide +kernel

/-- the pair laws on concrete blocks (ties across blocks, a NaN, an all-NaN block) -/
example : Grp.combinePair .argmax (.fin 99) (Grp.AEx.pssA.map fun ps => Grp.blockPair .argmax (.fin 77) ps)
      = Grp.blockPair .argmax (.fin 55) Grp.AEx.pssA.flatten
    ∧ Grp.blockPair .argmax (.fin 55) Grp.AEx.pssA.flatten = (.nan, .fin 8) :=
  ⟨pairLaw_arg .argmax (Or.inl rfl) (fun _ => .fin 77) (.fin 99) (.fin 55) Grp.AEx.pssA (by decide)
    (by decide +kernel), by decide +kernel⟩

example : Grp.HArgFill .nanargmax (Grp.AEx.pssN.flatten.map (·.1))
    ∧ Grp.blockPair .nanargmax (.fin 55) Grp.AEx.pssN.flatten = (.fin 3, .fin 2) := by decide +kernel

end

/-- the table theorem is not vacuous: the float64 `nanvar` row with `min_count > 0` and a user fill exists and is `ok` -/
example : ∃ row ∈ Generated.initRows, row.ok = true ∧ row.dkind = "f8" ∧ row.func = "nanvar" ∧ row.mcPos = true := by
  decide +kernel

/-! ## user-defined `Aggregation` objects

  (theorems about custom blueprints executed by the same machinery are appended below) -/

end Flox.C04
