/-
  C04 — the block / combine / finalize decomposition of each aggregation is exact; fills are neutral; a user-supplied
  `Aggregation` is executed by the same machinery and obeys the same law.

  Property theorems only (helper lemmas: FloxProofs/Columns, Tree, Finalize, IntFill, RegistryProven, UserAgg).

  Sections
    A. the decomposition law per column, absent / all-NaN blocks, tree shape          (basic restatements)
    B. finalizers: mean / var from their 2- and 3-column intermediates                (basic restatements)
    C. integer dtypes: max / min / nanmax / nanmin with a finite fill
    D. the registry tie (`registry_proven` …): the live blueprints are the proven ones
    E. user-defined aggregations
-/
import FloxProofs.Columns
import FloxProofs.Tree
import FloxProofs.Finalize
import FloxProofs.IntFill
import FloxProofs.RegistryProven
import FloxProofs.UserAgg
import FloxProofs.ArgValue
import FloxProofs.EndToEnd
import FloxProofs.ArgReduce
import FloxProofs.ArgReduceExamples
import FloxProofs.TableShape

namespace Flox.C04

open Flox

/-! ## A. column law, neutral blocks, tree shape -/

/-- **Decomposition of one intermediate column.**  For every built-in column (chunk kernel `k`, combine kernel `c`,
    resolved fill `f`), reducing the parts of ANY ordered split of a group's members separately (an empty part = a
    block where the group is absent ↦ the fill; an all-NaN part allowed) and merging with `c` gives the
    intermediate of the concatenation. -/
theorem decompose_column (k c : Kernel) (f : Val) (h : (k, c, f) ∈ floatColumns)
    (parts : List (List Val)) (hne : parts ≠ []) :
    combineVal c (parts.map (blockVal k f)) = blockVal k f parts.flatten :=
  combine_parts k c f h parts hne

/-- for a group that is present and (for NaN-skipping kernels) not all-NaN, the intermediate IS the NumPy kernel on
    the members: single-column aggregations need no finalizer -/
theorem column_is_kernel (k : Kernel) (f : Val) (ms : List Val) (hne : ms ≠ [])
    (hvalid : k.skipsNaN = true → dropNaN ms ≠ []) : blockVal k f ms = kEval k ms := by
  unfold blockVal
  have h1 : ms.isEmpty = false := by cases ms <;> simp_all
  rw [h1]
  cases hs : k.skipsNaN
  · simp
  · have : (dropNaN ms).isEmpty = false := by
      have := hvalid hs
      cases hd : dropNaN ms <;> simp_all
    simp [this]

/-- **Decompose: finalize ∘ combine over parts = the eager kernel on the concatenation** (single-column family) -/
theorem decompose (k c : Kernel) (f : Val) (h : (k, c, f) ∈ floatColumns)
    (parts : List (List Val)) (hne : parts.flatten ≠ [])
    (hvalid : k.skipsNaN = true → dropNaN parts.flatten ≠ []) :
    combineVal c (parts.map (blockVal k f)) = kEval k parts.flatten := by
  have hp : parts ≠ [] := by intro e; subst e; exact hne rfl
  rw [combine_parts k c f h parts hp, column_is_kernel k f _ hne hvalid]

/-- **Absent / all-NaN blocks are neutral**: inserting, anywhere among the (≥ 1) other blocks, a block where the
    group is absent, or (NaN-skipping kernels) present only as NaN, does not change the merged value. -/
theorem absent_block_neutral (k c : Kernel) (f : Val) (h : (k, c, f) ∈ floatColumns)
    (p : List Val) (hp : p = [] ∨ (k.skipsNaN = true ∧ ∀ x ∈ p, x.isNaN = true))
    (l₁ l₂ : List (List Val)) (hne : l₁ ++ l₂ ≠ []) :
    combineVal c ((l₁ ++ p :: l₂).map (blockVal k f)) = combineVal c ((l₁ ++ l₂).map (blockVal k f)) :=
  Flox.absent_block_neutral k c f h p hp l₁ l₂ hne

/-- **Tree shape is irrelevant**: any two reduction trees (any bracketing / `split_every` / depth / placement of
    absent blocks) over the same ordered members give the same value -/
theorem tree_shape_irrelevant (k c : Kernel) (f : Val) (h : (k, c, f) ∈ floatColumns)
    (t₁ t₂ : PTree) (hl : t₁.leaves = t₂.leaves) : t₁.eval k c f = t₂.eval k c f :=
  PTree.eval_congr k c f h t₁ t₂ hl

example : combineVal .nanmax ([[.fin 1, .nan], [], [.nan], [.fin (-2), .fin 3]].map (blockVal .nanmax Val.ninf))
    = Val.fin 3 := by decide +kernel

/-! ## B. finalizers -/

/-- mean: `sum / count` of the merged (sum, count) intermediates = `np.mean` of all members, for every split -/
theorem decompose_mean (parts : List (List Val)) (hne : parts ≠ []) :
    Val.div (combineVal .sum (parts.map (blockVal .sum Val.zero)))
        (combineVal .sum (parts.map (blockVal .nanlen Val.zero)))
      = kEval .mean parts.flatten := by
  rw [combine_parts .sum .sum Val.zero (by decide +kernel) parts hne,
    combine_parts .nanlen .sum Val.zero (by decide +kernel) parts hne, mean_finalize]

theorem decompose_nanmean (parts : List (List Val)) (hne : parts ≠ []) :
    Val.div (combineVal .sum (parts.map (blockVal .nansum Val.zero)))
        (combineVal .sum (parts.map (blockVal .nanlen Val.zero)))
      = kEval .nanmean parts.flatten := by
  rw [combine_parts .nansum .sum Val.zero (by decide +kernel) parts hne,
    combine_parts .nanlen .sum Val.zero (by decide +kernel) parts hne, nanmean_finalize]

/-- var / std (the model returns the variance for both): the one-pass finalizer on the merged
    (sum of squares, sum, count) = two-pass `np.var(ddof)` of all members (exact arithmetic) -/
theorem decompose_var (ddof : Nat) (parts : List (List Val)) (hne : parts ≠ []) :
    onepass ddof (combineVal .sum (parts.map (blockVal .sumsq Val.zero)))
        (combineVal .sum (parts.map (blockVal .sum Val.zero)))
        (combineVal .sum (parts.map (blockVal .nanlen Val.zero)))
      = kEval (.var ddof) parts.flatten := by
  rw [combine_parts .sumsq .sum Val.zero (by decide +kernel) parts hne,
    combine_parts .sum .sum Val.zero (by decide +kernel) parts hne,
    combine_parts .nanlen .sum Val.zero (by decide +kernel) parts hne, var_finalize]

theorem decompose_nanvar (ddof : Nat) (parts : List (List Val)) (hne : parts ≠ []) :
    onepass ddof (combineVal .sum (parts.map (blockVal .nansumsq Val.zero)))
        (combineVal .sum (parts.map (blockVal .nansum Val.zero)))
        (combineVal .sum (parts.map (blockVal .nanlen Val.zero)))
      = kEval (.nanvar ddof) parts.flatten := by
  rw [combine_parts .nansumsq .sum Val.zero (by decide +kernel) parts hne,
    combine_parts .nansum .sum Val.zero (by decide +kernel) parts hne,
    combine_parts .nanlen .sum Val.zero (by decide +kernel) parts hne, nanvar_finalize]

example : kEval (.var 1) [Val.fin 1, .fin 2, .fin 6] = Val.fin 7 := by decide +kernel
example : onepass 1 (combineVal .sum ([[Val.fin 1], [], [.fin 2, .fin 6]].map (blockVal .sumsq Val.zero)))
    (combineVal .sum ([[Val.fin 1], [], [.fin 2, .fin 6]].map (blockVal .sum Val.zero)))
    (combineVal .sum ([[Val.fin 1], [], [.fin 2, .fin 6]].map (blockVal .nanlen Val.zero))) = Val.fin 7 := by
  decide +kernel

/-! ## C. integer dtypes: finite fills -/

/-- `max` with a finite fill `f` (integer dtypes: `iinfo.min`): the column law holds when every member is ≥ `f` -/
theorem column_max_finite_fill (f : Val) (parts : List (List Val)) (hne : parts ≠ [])
    (hge : ∀ p ∈ parts, ∀ x ∈ p, Val.max f x = x) :
    combineVal .max (parts.map (blockVal .max f)) = blockVal .max f parts.flatten :=
  combine_max_fill f parts hne hge

theorem column_min_finite_fill (f : Val) (parts : List (List Val)) (hne : parts ≠ [])
    (hle : ∀ p ∈ parts, ∀ x ∈ p, Val.min f x = x) :
    combineVal .min (parts.map (blockVal .min f)) = blockVal .min f parts.flatten :=
  combine_min_fill f parts hne hle

theorem column_nanmax_finite_fill (f : Val) (hf : f.isNaN = false) (parts : List (List Val)) (hne : parts ≠ [])
    (hge : ∀ p ∈ parts, ∀ x ∈ p, x.isNaN = false → Val.max f x = x) :
    combineVal .nanmax (parts.map (blockVal .nanmax f)) = blockVal .nanmax f parts.flatten :=
  combine_nanmax_fill f hf parts hne hge

theorem column_nanmin_finite_fill (f : Val) (hf : f.isNaN = false) (parts : List (List Val)) (hne : parts ≠ [])
    (hle : ∀ p ∈ parts, ∀ x ∈ p, x.isNaN = false → Val.min f x = x) :
    combineVal .nanmin (parts.map (blockVal .nanmin f)) = blockVal .nanmin f parts.flatten :=
  combine_nanmin_fill f hf parts hne hle

/-- signed `bits`-bit integer data satisfy the hypotheses for the dtype-extreme fills … -/
theorem intN_data_bounded (bits : Nat) (x : Val) (h : IsIntN bits x) :
    Val.max (intMin bits) x = x ∧ Val.min (intMax bits) x = x ∧ x.isNaN = false :=
  ⟨intN_ge_min bits x h, intN_le_max bits x h, intN_not_nan bits x h⟩

/-- … hence for int64 data with the int64 fills (−2^63 / 2^63−1) all four column laws hold -/
theorem column_max_int64 (parts : List (List Val)) (hne : parts ≠ []) (hint : ∀ p ∈ parts, ∀ x ∈ p, IsIntN 64 x) :
    combineVal .max (parts.map (blockVal .max (intMin 64))) = blockVal .max (intMin 64) parts.flatten
    ∧ combineVal .nanmax (parts.map (blockVal .nanmax (intMin 64))) = blockVal .nanmax (intMin 64) parts.flatten
    ∧ combineVal .min (parts.map (blockVal .min (intMax 64))) = blockVal .min (intMax 64) parts.flatten
    ∧ combineVal .nanmin (parts.map (blockVal .nanmin (intMax 64))) = blockVal .nanmin (intMax 64) parts.flatten :=
  ⟨combine_max_fill _ parts hne (fun p hp x hx => intN_ge_min 64 x (hint p hp x hx)),
   combine_nanmax_fill _ rfl parts hne (fun p hp x hx _ => intN_ge_min 64 x (hint p hp x hx)),
   combine_min_fill _ parts hne (fun p hp x hx => intN_le_max 64 x (hint p hp x hx)),
   combine_nanmin_fill _ rfl parts hne (fun p hp x hx _ => intN_le_max 64 x (hint p hp x hx))⟩

/-- any bound below the dtype range works too (e.g. int8 data with an int64 intermediate) -/
theorem int_fill_below (m lo : Int) (x : Int) (hm : m ≤ lo) (hx : lo ≤ x) :
    Val.max (Val.ofInt m) (Val.ofInt x) = Val.ofInt x :=
  max_fin_of_le _ _ (by exact_mod_cast (Int.le_trans hm hx))

theorem int_fill_above (m hi : Int) (x : Int) (hm : hi ≤ m) (hx : x ≤ hi) :
    Val.min (Val.ofInt m) (Val.ofInt x) = Val.ofInt x :=
  min_fin_of_ge _ _ (by exact_mod_cast (Int.le_trans hx hm))

-- non-vacuity: int64 extremes among the data, one absent block
example : combineVal .max ([[Val.ofInt (-9223372036854775808)], [], [Val.ofInt (-5)]].map (blockVal .max (intMin 64)))
    = Val.ofInt (-5) := by decide +kernel
example : IsIntN 64 (Val.ofInt (-9223372036854775808)) := ⟨_, rfl, by decide, by decide⟩

/-- the value column of `nanargmax` / `nanargmin` (chunk and combine `nanmax` / `nanmin`, fill NaN – not one of
    `floatColumns`): blocks where the group is absent or all-NaN contribute NaN, which the combine skips -/
theorem column_nanarg_value (parts : List (List Val)) :
    combineVal .nanmax (parts.map (blockVal .nanmax Val.nan)) = blockVal .nanmax Val.nan parts.flatten
    ∧ combineVal .nanmin (parts.map (blockVal .nanmin Val.nan)) = blockVal .nanmin Val.nan parts.flatten :=
  ⟨combine_nanmax_nanfill parts, combine_nanmin_nanfill parts⟩

example : combineVal .nanmax ([[Val.nan], [], [.ninf, .nan], [.fin 2]].map (blockVal .nanmax Val.nan)) = .fin 2 := by
  decide +kernel
example : combineVal .nanmax ([[Val.nan], [], [.ninf, .nan]].map (blockVal .nanmax Val.nan)) = .ninf := by
  decide +kernel

/-- the hypothesis "data ≥ fill" is necessary: 0 is neutral for `max` only on non-negative data
    (chunk "max" / combine "max" / fill 0 — the kind of blueprint a positive-data test suite cannot reject) -/
theorem fill_not_neutral_counterexample :
    combineVal .max ([[Val.fin (-2)], []].map (blockVal .max (Val.fin 0))) = Val.fin 0
    ∧ blockVal .max (Val.fin 0) [[Val.fin (-2)], []].flatten = Val.fin (-2) := by decide +kernel

/-! ## D. the registry tie -/

/-- **Every built-in blueprint is a proven one.**  For each entry of the live `AGGREGATIONS` (regenerated table):
    if it has a chunk function its declarative core (numpy / chunk / combine / intermediate fills / finalize /
    reduction type) is literally that of its family in `provenBlueprints`, the family is well-formed (its columns,
    with the fills resolved for floating dtypes, are in `floatColumns`; its finalizer is a proven one); otherwise it
    is blockwise-only (no combine, no finalizer). -/
theorem registry_proven : ∀ b ∈ Generated.registry, blueprintProven b = true :=
  List.all_eq_true.mp registry_all_proven

/-- **`_initialize_aggregation` resolves the fills as the proofs assume** (float64 / float32, all 16 grid cells per
    blueprint): same chunk / combine kernels (+ the count column `nanlen` / `sum` / 0 when `min_count > 0`),
    `NINF ↦ -inf`, `INF ↦ inf`, `NA ↦ nan`, `simple_combine` = the functions named by `combine`, same finalizer. -/
theorem registry_float_fills_resolved :
    ∀ b ∈ Generated.registry, hasChunk b = true → floatRowsProven b = true ∧ floatRowsCount b = 20 := by
  intro b hb hc
  have hmem : b ∈ Generated.registry.filter hasChunk := List.mem_filter.mpr ⟨hb, hc⟩
  exact ⟨List.all_eq_true.mp registry_float_rows_proven b hmem,
    by simpa using List.all_eq_true.mp registry_float_rows_exist b hmem⟩

/-- **Integer dtypes**: in every row of the table for `max` / `nanmax` (`min` / `nanmin`) on an integer array dtype,
    the resolved intermediate fill is −inf or an integer ≤ the least value of the array dtype (resp. +inf / ≥ the
    greatest): exactly the hypothesis of `column_max_finite_fill` … -/
theorem registry_int_fills_bound : ∀ r ∈ Generated.initRows, r.ok = true →
    (r.func ∈ maxFamily ∨ r.func ∈ minFamily) → intRowBounded r = true := by
  intro r hr hok hf
  have h := List.all_eq_true.mp registry_int_rows_bounded r hr
  have hsel : (r.ok && (maxFamily.contains r.func || minFamily.contains r.func)) = true := by
    rcases hf with hf | hf <;> simp [hok, hf]
  rw [hsel] at h
  simpa using h

/-- every proven family comes with its law -/
def AggFamilyLaw : AggFamily → Prop
  | .column k c fs => ∃ v, floatFill fs = some v ∧ Law k c v
  | .mean nan =>
    Law (if nan then .nansum else .sum) .sum Val.zero ∧ Law .nanlen .sum Val.zero ∧
      ∀ ms, Val.div (blockVal (if nan then .nansum else .sum) Val.zero ms) (blockVal .nanlen Val.zero ms)
        = kEval (if nan then .nanmean else .mean) ms
  | .var nan _ =>
    Law (if nan then .nansumsq else .sumsq) .sum Val.zero ∧ Law (if nan then .nansum else .sum) .sum Val.zero ∧
      Law .nanlen .sum Val.zero ∧
      ∀ ddof ms, onepass ddof (blockVal (if nan then .nansumsq else .sumsq) Val.zero ms)
          (blockVal (if nan then .nansum else .sum) Val.zero ms) (blockVal .nanlen Val.zero ms)
        = kEval (if nan then .nanvar ddof else .var ddof) ms
  | .arg k =>
    -- the value column (the group's extreme; NaN fill for the NaN-skipping ones) decomposes; the law of the index
    -- column given the value column ("first extreme wins", the (value, index) pair law) is the subject of C06
    ∃ v, floatFill (argValueFill k) = some v ∧ Law (argValueKernel k) (argValueKernel k) v

theorem column_law {k c : Kernel} {f : Val} (h : (k, c, f) ∈ floatColumns) : Law k c f :=
  fun parts hne => combine_parts k c f h parts hne

theorem proven_families_lawful : ∀ p ∈ provenBlueprints, p.2.wf p.1 = true → AggFamilyLaw p.2 := by
  intro p _ hwf
  obtain ⟨key, fam⟩ := p
  cases fam with
  | column k c fs =>
    simp only [AggFamily.wf, Bool.and_eq_true] at hwf
    cases hv : floatFill fs with
    | none => simp [hv] at hwf
    | some v =>
      simp only [hv, decide_eq_true_eq] at hwf
      exact ⟨v, hv, column_law hwf.1⟩
  | mean nan =>
    cases nan
    · exact ⟨column_law (by decide +kernel), column_law (by decide +kernel), mean_finalize⟩
    · exact ⟨column_law (by decide +kernel), column_law (by decide +kernel), nanmean_finalize⟩
  | var nan std =>
    cases nan
    · exact ⟨column_law (by decide +kernel), column_law (by decide +kernel), column_law (by decide +kernel),
        var_finalize⟩
    · exact ⟨column_law (by decide +kernel), column_law (by decide +kernel), column_law (by decide +kernel),
        nanvar_finalize⟩
  | arg k =>
    simp only [AggFamily.wf, Bool.and_eq_true, Bool.or_eq_true, beq_iff_eq] at hwf
    rcases hwf.1 with ((rfl | rfl) | rfl) | rfl
    · exact ⟨Val.ninf, rfl, column_law (by decide +kernel)⟩
    · exact ⟨Val.pinf, rfl, column_law (by decide +kernel)⟩
    · exact ⟨Val.nan, rfl, fun parts _ => combine_nanmax_nanfill parts⟩
    · exact ⟨Val.nan, rfl, fun parts _ => combine_nanmin_nanfill parts⟩

-- non-vacuity: the table is not empty and contains what one expects
example : (Generated.registry.filter hasChunk).length = 23 := registry_counts.1
example : provenBlueprints.lookup "nanvar" = some (.var true false) := by decide +kernel
example : ∃ b ∈ Generated.registry, b.key = "mean" ∧ b.combine = ["sum", "sum"] ∧ b.finalize = "_mean_finalize" := by
  decide +kernel
-- an edited blueprint is rejected: combine "sum" → "max", fill 0 → 1, `_var_finalize` → `_mean_finalize`
def editedCombine : RegistryRow :=
  { key := "sum", name := "sum", numpy := ["sum"], chunk := ["sum"], combine := ["max"], fills := ["0"],
    finalFill := "NA", interDtypes := ["None"], finalDtype := "None", finalize := "None", preprocess := "None",
    reductionType := "reduce", preservesDtype := false, newDims := "returns_empty_tuple" }
def editedFill : RegistryRow := { editedCombine with combine := ["sum"], fills := ["1"] }
def editedFinalizer : RegistryRow :=
  { key := "var", name := "var", numpy := ["var"], chunk := ["sum_of_squares", "sum", "nanlen"],
    combine := ["sum", "sum", "sum"], fills := ["0", "0", "0"], finalFill := "nan",
    interDtypes := ["None", "None", "int64"], finalDtype := "floating", finalize := "_mean_finalize",
    preprocess := "None", reductionType := "reduce", preservesDtype := false, newDims := "returns_empty_tuple" }
example : blueprintProven editedCombine = false ∧ blueprintProven editedFill = false
    ∧ blueprintProven editedFinalizer = false
    ∧ blueprintProven { editedFill with fills := ["0"] } = true := by decide +kernel

/-! ## E. user-defined aggregations -/

/-- **Same machinery.**  For an ARBITRARY resolved blueprint (any kernel names, any fills — no law assumed), the
    numpy_groupies engine and any chunking / `split_every`, the map-reduce plan with `_simple_combine` stores in
    column `j`, slot `g`, the tree fold (with the user's combine kernel `j`) of the per-block values
    `blockVal chunk[j] fill[j] (members of g in the block)`; `groupby_reduce` then applies `_finalize_results` to it
    (`userAggregation_runKnown`). -/
theorem userAggregation_machinery (c : Call) (n : Nat) (chunks : List Nat) (codes : List Int) (vals : List Val)
    (se : Nat) (heng : c.eng = .npg) (hn : c.ngroups = n) (harg : c.R.isArg = false)
    (hc : c.R.chunk.length = c.R.combine.length) (hf : c.R.chunk.length = c.R.interFills.length)
    (hnoarg : ∀ k ∈ c.R.chunk, isArgKernel k = false) (hz : LenFillsZero c.R)
    (hchunks : chunks ≠ []) (hsum : chunks.sum = codes.length)
    (hcodes : ∀ c ∈ codes, -1 ≤ c ∧ c < (n : Int)) :
    simpleCombine c.R true (treeReduce (simpleCombine c.R true) se
        (blockStage c true chunks (codes.map fun (i : Int) => (some (i : Rat) : Key)) vals))
      = { groups := rangeKeys n,
          cols := c.R.combine.mapIdx fun j cmb =>
            (List.range n).map fun gi =>
              machineryVal cmb se ((segsOf chunks codes vals).map fun p =>
                blockVal (c.R.chunk.getD j .sum) (c.R.interFills.getD j Val.nan) (members (Int.ofNat gi) p.1 p.2)) } :=
  Flox.userAggregation_machinery c n chunks codes vals se heng hn harg hc hf hnoarg hz hchunks hsum hcodes

theorem userAggregation_runKnown (c : Call) (floatData : Bool) (chunks : List Nat) (keys : List Key) (vals : List Val)
    (h : useGroupedCombine c floatData = false) :
    runKnown c (.mapreduce true) floatData chunks keys vals
      = (match finalizeResults c.R
            (simpleCombine c.R true (treeReduce (simpleCombine c.R true) c.splitEvery
              (blockStage c true chunks keys vals))) (some (rangeKeys c.ngroups)) true with
          | .error e => .error e
          | .ok (gs, vs) => finalReindex c false gs vs) :=
  Flox.userAggregation_runKnown c floatData chunks keys vals h

/-- built-in aggregations enter the same function after the table lookup -/
theorem builtin_uses_runResolved (rows : List InitRow) (rq : Request) (plan : Plan) (chunks : List Nat)
    (labels : List Key) (vals : List Val) :
    run rows rq plan chunks labels vals
      = (match findInit rows rq.func rq.dkind (fillKindOf (effective rq).2) ((effective rq).1 > 0) with
          | none => .unsupported "no-init-row"
          | some row =>
            if !row.ok then .err row.err else
            match row.resolve (effective rq).2 (effective rq).1 rq.ddof with
            | none => .unsupported "unresolved-row"
            | some R => runResolved R rq (effective rq).2 plan chunks labels vals) :=
  run_eq_runResolved rows rq plan chunks labels vals

/-- **Lawful user aggregations obey the same law.**  If each column of the user's blueprint satisfies the column
    law (`Law`; e.g. a clone of built-in columns under a new name: `column_law`), then for every chunking and every
    `split_every` the combined intermediates are those of the whole array as a single block. -/
theorem userAggregation_lawful (c : Call) (n : Nat) (chunks : List Nat) (codes : List Int) (vals : List Val)
    (se : Nat) (sort : Bool) (heng : c.eng = .npg) (hn : c.ngroups = n) (harg : c.R.isArg = false)
    (hc : c.R.chunk.length = c.R.combine.length) (hf : c.R.chunk.length = c.R.interFills.length)
    (hlaw : ∀ j (hj : j < c.R.chunk.length),
      Law c.R.chunk[j] (c.R.combine[j]'(by omega)) (c.R.interFills[j]'(by omega)))
    (hnoarg : ∀ k ∈ c.R.chunk, isArgKernel k = false) (hz : LenFillsZero c.R)
    (hchunks : chunks ≠ []) (hsum : chunks.sum = codes.length) (hlen : codes.length = vals.length)
    (hcodes : ∀ c ∈ codes, -1 ≤ c ∧ c < (n : Int)) :
    simpleCombine c.R true (treeReduce (simpleCombine c.R true) se
        (blockStage c true chunks (codes.map fun (i : Int) => (some (i : Rat) : Key)) vals))
      = chunkReduce .npg c.R.chunk c.R.interFills (codes.map fun (i : Int) => (some (i : Rat) : Key)) vals
          (some n) sort :=
  Flox.userAggregation_lawful c n chunks codes vals se sort heng hn harg hc hf hlaw hnoarg hz hchunks hsum hlen hcodes

/-- the scalar core of it: under a column law the tree fold `machineryVal` is the block value of the concatenation -/
theorem machinery_collapses_under_law (k c : Kernel) (f : Val) (hlaw : Law k c f) (se : Nat)
    (parts : List (List Val)) (hne : parts ≠ []) :
    machineryVal c se (parts.map (blockVal k f)) = blockVal k f parts.flatten :=
  machineryVal_law k c f hlaw se parts hne

/-- **… and equals the eager result** when the blueprint has the shape of a built-in family under ANY name
    (`R.shape? = some s` does not look at `R.name`): chunked = eager, including the `ValueError` outcome.
    Hypotheses as in C02 (`H_absent`, `H_allnan`, `H_minmax`: what `_initialize_aggregation` grants the built-in
    `nanmax` / `nanmin` by name and a user clone has to request through `min_count`). -/
theorem userAggregation_lawful_eq_eager (R : Resolved) (s : Shape) (c : Call) (n : Nat) (floatData : Bool)
    (chunks chunks' : List Nat) (codes : List Int) (vals : List Val)
    (hR : c.R = R) (heng : c.eng = .npg) (hn : c.ngroups = n) (hknown : c.knownLabels = true)
    (hshape : R.shape? = some s)
    (hcodes : ∀ c ∈ codes, -1 ≤ c ∧ c < (n : Int)) (hlen : codes.length = vals.length)
    (H_absent : ∀ g : Nat, g < n → R.minCount ≥ 1 ∨ members (Int.ofNat g) codes vals ≠ [])
    (H_allnan : s.needsNaNFill = true → R.minCount ≥ 1 ∨ R.npFill = Val.nan)
    (H_minmax : s.isNanMinMax = true → R.minCount ≥ 1)
    (hchunks : chunks ≠ []) (hsum : chunks.sum = codes.length)
    (hcombine : useGroupedCombine c floatData = false) :
    runKnown c (.mapreduce true) floatData chunks (codes.map fun (i : Int) => (some (i : Rat) : Key)) vals
      = runKnown c .eager floatData chunks' (codes.map fun (i : Int) => (some (i : Rat) : Key)) vals :=
  Flox.mapreduce_dense_eq_eager R s c n floatData chunks chunks' codes vals hR heng hn hknown hshape hcodes hlen
    H_absent H_allnan H_minmax hchunks hsum hcombine

/-! ### non-vacuity and necessity (user aggregations) -/

/-- a lawful user aggregation: a clone of `nanmean` under a new name (resolved fields) -/
def myMean : Resolved :=
  { name := "my_nanmean", numpy := [.nanmean], chunk := [.nansum, .nanlen], combine := [.sum, .sum],
    interFills := [Val.zero, Val.zero], numpyFills := [Val.nan], finalFill := some Val.nan, userFill := none,
    minCount := 0, finalize := "mean", ddof := 0, isArg := false }

/-- an unlawful one: chunk "max", combine "sum" -/
def maxSum : Resolved :=
  { name := "max_then_sum", numpy := [.max], chunk := [.max], combine := [.sum], interFills := [Val.zero],
    numpyFills := [Val.nan], finalFill := some Val.nan, userFill := none, minCount := 0, finalize := "none", ddof := 0,
    isArg := false }

def exRq : Request :=
  { func := "user", dkind := "-", fill := none, minCount := none, ddof := 0, eng := .npg, sort := true,
    expected := none, known := true, splitEvery := 2, floatData := true }

def exLabels : List Key := [some 0, some 1, some 0, some 1, some 0, some 1]
def exVals : List Val := [.fin 1, .fin 5, .fin 3, .fin 5, .nan, .fin 5]

/-- decidable comparison of an outcome with expected labels / values -/
def okIs (o : Outcome) (gs : List Key) (vs : List Val) : Bool :=
  match o with
  | .ok g v => decide (g = gs) && decide (v = vs)
  | _ => false

-- the clone: chunked (3 blocks, binary tree) = eager = 2 (nanmean of 1, 3, NaN)
example : okIs (runResolved myMean exRq none (.mapreduce true) [2, 2, 2] exLabels exVals)
    [some 0, some 1] [.fin 2, .fin 5] = true := by decide +kernel
example : okIs (runResolved myMean exRq none .eager [] exLabels exVals) [some 0, some 1] [.fin 2, .fin 5] = true := by
  decide +kernel

/-- without the law the chunked result of a user aggregation depends on the chunking: the machinery faithfully sums
    the block maxima (1 + 3 + NaN-propagating… here 1 + 3 + 2 = 6 ≠ max = 3) -/
theorem unlawful_userAggregation_counterexample :
    okIs (runResolved maxSum exRq none (.mapreduce true) [2, 2, 2] exLabels
        [.fin 1, .fin 5, .fin 3, .fin 5, .fin 2, .fin 5]) [some 0, some 1] [.fin 6, .fin 15] = true
    ∧ okIs (runResolved maxSum exRq none (.mapreduce true) [6] exLabels
        [.fin 1, .fin 5, .fin 3, .fin 5, .fin 2, .fin 5]) [some 0, some 1] [.fin 3, .fin 5] = true := by
  decide +kernel

-- `machineryVal` on concrete per-block values: 5 blocks, split_every 2 → a tree of depth 3
example : machineryVal .sum 2 [.fin 1, .fin 2, .fin 3, .fin 4, .fin 5] = .fin 15 := by decide +kernel
example : treeVals .sum 2 [.fin 1, .fin 2, .fin 3, .fin 4, .fin 5] = [.fin 10, .fin 5] := by decide +kernel

/-! ## F. further restatements (columns, finalizers, pair laws, generated table) -/


/-! ## §1 chunk / combine decomposition of one column -/

/-- **Decomposition law.**  For every built-in column `(k, c, f)` and EVERY split `parts` of a group's members into at
    least one ordered part (parts may be empty = the group is absent from that block, or all-NaN), combining the
    per-part intermediates with `c` gives exactly the intermediate of the concatenated members.
    `parts ≠ []` is necessary for `nanmax` / `nanmin` only (NumPy's `nanmax` of nothing is NaN, the fill is `-inf`);
    see the `example` at the end. -/
theorem combine_parts (k c : Kernel) (f : Val) (h : (k, c, f) ∈ floatColumns)
    (parts : List (List Val)) (hne : parts ≠ []) :
    combineVal c (parts.map (blockVal k f)) = blockVal k f parts.flatten :=
  Flox.combine_parts k c f h parts hne

/-- the order-sensitive columns, spelled out: `nanfirst` / `nanlast` of the per-block `nanfirst` / `nanlast` values, in
    block order, is the first / last non-NaN member of the whole group (no commutativity is used – none holds) -/
theorem combine_nanfirst (parts : List (List Val)) :
    combineVal .nanfirst (parts.map (blockVal .nanfirst Val.nan)) = blockVal .nanfirst Val.nan parts.flatten :=
  Flox.combine_nanfirst parts

theorem combine_nanlast (parts : List (List Val)) :
    combineVal .nanlast (parts.map (blockVal .nanlast Val.nan)) = blockVal .nanlast Val.nan parts.flatten :=
  Flox.combine_nanlast parts

/-! ## §2 absent and all-NaN blocks are neutral -/

/-- **Absent / all-NaN blocks are neutral.**  Inserting, anywhere among the blocks (`l₁` before, `l₂` after), a block
    `p` in which the group is absent (`p = []`), or – for a NaN-skipping chunk kernel – one in which all its members
    are NaN, does not change the combined value.  `l₁ ++ l₂ ≠ []` (there is at least one other block) is necessary
    for `nanmax` / `nanmin`, see the `example` at the end. -/
theorem absent_block_neutral_anywhere (k c : Kernel) (f : Val) (h : (k, c, f) ∈ floatColumns)
    (p : List Val) (hp : p = [] ∨ (k.skipsNaN = true ∧ ∀ x ∈ p, x.isNaN = true))
    (l₁ l₂ : List (List Val)) (hne : l₁ ++ l₂ ≠ []) :
    combineVal c ((l₁ ++ p :: l₂).map (blockVal k f)) = combineVal c ((l₁ ++ l₂).map (blockVal k f)) :=
  Flox.absent_block_neutral k c f h p hp l₁ l₂ hne

/-- an all-NaN block is interchangeable with an absent block (no side condition on the other blocks): the chunk
    stage stores the same intermediate for both -/
theorem allNaN_block_eq_absent (k c : Kernel) (f : Val) (h : (k, c, f) ∈ floatColumns)
    (hs : k.skipsNaN = true) (p : List Val) (hp : ∀ x ∈ p, x.isNaN = true)
    (l₁ l₂ : List (List Val)) :
    combineVal c ((l₁ ++ p :: l₂).map (blockVal k f)) = combineVal c ((l₁ ++ [] :: l₂).map (blockVal k f)) :=
  Flox.allNaN_block_eq_absent k c f h hs p hp l₁ l₂

/-- the same, phrased on the result: the combined value only depends on the concatenated members of the other
    blocks -/
theorem absent_block_neutral_value (k c : Kernel) (f : Val) (h : (k, c, f) ∈ floatColumns)
    (p : List Val) (hp : p = [] ∨ (k.skipsNaN = true ∧ ∀ x ∈ p, x.isNaN = true))
    (l₁ l₂ : List (List Val)) (hne : l₁ ++ l₂ ≠ []) :
    combineVal c ((l₁ ++ p :: l₂).map (blockVal k f)) = blockVal k f (l₁ ++ l₂).flatten :=
  Flox.absent_block_neutral' k c f h p hp l₁ l₂ hne

/-! ## §3 finalizers (for EVERY member list: empty, with NaN, with ±inf) -/

/-- `mean`: stored `sum` / stored count = `np.mean` -/
theorem mean_finalize (ms : List Val) :
    Val.div (blockVal .sum Val.zero ms) (blockVal .nanlen Val.zero ms) = kEval .mean ms :=
  Flox.mean_finalize ms

/-- `nanmean`: stored `nansum` / stored count = `np.nanmean` -/
theorem nanmean_finalize (ms : List Val) :
    Val.div (blockVal .nansum Val.zero ms) (blockVal .nanlen Val.zero ms) = kEval .nanmean ms :=
  Flox.nanmean_finalize ms

/-- `var` / `std`: the one-pass formula on the stored (sum of squares, sum, count) = two-pass `np.var(ddof)`, NaN when
    `count ≤ ddof`.  (The model returns the variance for `std` as well; the square root is outside exact arithmetic.) -/
theorem var_finalize (ddof : Nat) (ms : List Val) :
    onepass ddof (blockVal .sumsq Val.zero ms) (blockVal .sum Val.zero ms) (blockVal .nanlen Val.zero ms)
      = kEval (.var ddof) ms :=
  Flox.var_finalize ddof ms

/-- `nanvar` / `nanstd` -/
theorem nanvar_finalize (ddof : Nat) (ms : List Val) :
    onepass ddof (blockVal .nansumsq Val.zero ms) (blockVal .nansum Val.zero ms) (blockVal .nanlen Val.zero ms)
      = kEval (.nanvar ddof) ms :=
  Flox.nanvar_finalize ddof ms

/-- whole-pipeline form for one group: split the members into parts, store the three `var` columns per part, combine
    each column with `sum`, finalize – the result is `np.var(ddof)` of all members -/
theorem var_split_combine_finalize (ddof : Nat) (parts : List (List Val)) (hne : parts ≠ []) :
    onepass ddof (combineVal .sum (parts.map (blockVal .sumsq Val.zero)))
        (combineVal .sum (parts.map (blockVal .sum Val.zero)))
        (combineVal .sum (parts.map (blockVal .nanlen Val.zero)))
      = kEval (.var ddof) parts.flatten := by
  rw [Flox.combine_parts .sumsq .sum Val.zero (by decide) parts hne,
    Flox.combine_parts .sum .sum Val.zero (by decide) parts hne,
    Flox.combine_parts .nanlen .sum Val.zero (by decide) parts hne]
  exact Flox.var_finalize ddof parts.flatten

/-- the same for `nanmean` -/
theorem nanmean_split_combine_finalize (parts : List (List Val)) (hne : parts ≠ []) :
    Val.div (combineVal .sum (parts.map (blockVal .nansum Val.zero)))
        (combineVal .sum (parts.map (blockVal .nanlen Val.zero)))
      = kEval .nanmean parts.flatten := by
  rw [Flox.combine_parts .nansum .sum Val.zero (by decide) parts hne,
    Flox.combine_parts .nanlen .sum Val.zero (by decide) parts hne]
  exact Flox.nanmean_finalize parts.flatten

/-! ## §4 arg-reductions: the pair law

  The chunk stage stores, per block and label, `Grp.blockPair k junk ps` = (extreme value of the label's members in the
  block, GLOBAL index of its first occurrence), where `ps : List (Val × Val)` are the (value, global index) pairs of
  the members and `junk` is whatever index the engine reports when no member is left after dropping NaN.
  `_grouped_combine` computes `Grp.combinePair k junk qs` = (max, argmax) resp. (min, argmin) over the stacked
  per-block pairs `qs`, in block order. -/

/-- **Pair law, `argmax` / `argmin`** – no hypothesis on the data (NaN members included: NumPy's `argmax` treats NaN as
    the greatest element): combining the per-block pairs gives the pair of the concatenated members, i.e. (extreme
    over all, smallest global index attaining it).  `hall`: the label occurs in every listed block. -/
theorem pairLaw_arg (k : Kernel) (hk : k = .argmax ∨ k = .argmin) (junkB : List Grp.VI → Val) (junkC junk : Val)
    (pss : List (List Grp.VI)) (hne : pss ≠ []) (hall : ∀ ps ∈ pss, ps ≠ []) :
    Grp.combinePair k junkC (pss.map fun ps => Grp.blockPair k (junkB ps) ps) = Grp.blockPair k junk pss.flatten :=
  Grp.pairLaw_arg k hk junkB junkC junk pss hne hall

/-- **Pair law, `nanargmax` / `nanargmin`** for the blueprint (chunk `(nanmax, nanargmax)`, combine `(max, argmax)`,
    value fill `∓inf`).  A block in which all members of the label are NaN contributes the junk pair (`∓inf`, `junkB`).
    Narrower than the property: `Grp.HArgFill k vs` – the label has a non-NaN member different from `∓inf`.  Without
    it the law FAILS: `pairLaw_nanarg_counterexample` (the junk pair of an all-NaN block ties with a genuine `-inf`
    and wins by position).  The real library was repaired after this finding: the registry's combine for
    `nanargmax` / `nanargmin` is now `(nanmax, nanargmax)` with a NaN value fill, so all-NaN blocks never win; this
    theorem documents the blueprint as modelled. -/
theorem pairLaw_nanarg (k : Kernel) (hk : k = .nanargmax ∨ k = .nanargmin) (junkB : List Grp.VI → Val)
    (junkC junk : Val) (pss : List (List Grp.VI)) (hne : pss ≠ [])
    (H_argfill : Grp.HArgFill k (pss.flatten.map (·.1))) :
    Grp.combinePair k junkC (pss.map fun ps => Grp.blockPair k (junkB ps) ps) = Grp.blockPair k junk pss.flatten :=
  Grp.pairLaw_nanarg k hk junkB junkC junk pss hne H_argfill

/-- `HArgFill` is necessary: the label is all-NaN in the first block (junk pair `(-inf, 0)`) and its only valid member
    is a genuine `-inf` at index 3: (max, argmax) keeps the junk index 0 -/
theorem pairLaw_nanarg_counterexample :
    let pss : List (List Grp.VI) := [[(.nan, .fin 0), (.nan, .fin 1)], [(.nan, .fin 2), (.ninf, .fin 3)]]
    ¬ Grp.HArgFill .nanargmax (pss.flatten.map (·.1))
    ∧ Grp.combinePair .nanargmax (.fin 99)
        (pss.map fun ps => Grp.blockPair .nanargmax ((ps.headD (.nan, .nan)).2) ps) = (.ninf, .fin 0)
    ∧ Grp.blockPair .nanargmax (.fin 55) pss.flatten = (.ninf, .fin 3) :=
  Grp.AEx.pairLaw_nanarg_counterexample

/-! ## §5 tie to the live registry -/

/-- **Every built-in simple-combine blueprint obeys the laws.**  `Generated.initRows` is the table of
    `_initialize_aggregation` outcomes regenerated from the running library (func × dtype kind × fill kind ×
    `min_count` positivity).  Every `ok` row for floating data and one of the 17 listed reductions resolves – for any
    user fill, any `min_count` of the row's positivity, any `ddof` – to a blueprint `R` with a `Shape` `s` such that
    * the NumPy kernel of `s` is the one named by `func`;
    * EVERY intermediate column of `R` (the count column appended for `min_count > 0` included) obeys the
      decomposition law §1 and the neutrality law §2;
    * the finalizer is `none` (simple shapes), `sum / count` (mean shapes, §3) or the one-pass variance (var shapes). -/
theorem generated_rows_decompose :
    ∀ row ∈ Generated.initRows, row.ok = true → row.dkind ∈ ["f8", "f4"] →
      row.func ∈ ["sum", "nansum", "prod", "nanprod", "max", "nanmax", "min", "nanmin", "count", "mean", "nanmean",
        "var", "nanvar", "std", "nanstd", "nanfirst", "nanlast"] →
      ∀ (user : Option Val) (mc ddof : Nat), row.mcPos = decide (mc > 0) →
        ∃ R s, row.resolve user mc ddof = some R ∧ R.shape? = some s
          ∧ kernelWithDdof ddof row.func = some s.kernel
          ∧ R.chunk.length = R.combine.length ∧ R.chunk.length = R.interFills.length
          ∧ (∀ t ∈ R.chunk.zip (R.combine.zip R.interFills),
              (∀ parts : List (List Val), parts ≠ [] →
                combineVal t.2.1 (parts.map (blockVal t.1 t.2.2)) = blockVal t.1 t.2.2 parts.flatten)
              ∧ (∀ (p : List Val), (p = [] ∨ (t.1.skipsNaN = true ∧ ∀ x ∈ p, x.isNaN = true)) →
                  ∀ l₁ l₂ : List (List Val), l₁ ++ l₂ ≠ [] →
                    combineVal t.2.1 ((l₁ ++ p :: l₂).map (blockVal t.1 t.2.2))
                      = combineVal t.2.1 ((l₁ ++ l₂).map (blockVal t.1 t.2.2))))
          ∧ s.finalizeOK R.finalize = true := by
  intro row hrow hok hdk hfunc user mc ddof hmc
  obtain ⟨R, s, hf⟩ := Flox.generated_rows_have_shape row hrow hok hdk hfunc user mc ddof hmc
  have hs := (R.shape?_eq_some_iff s).mp hf.shape
  refine ⟨R, s, hf.resolve, hf.shape, hf.kernel, hs.len_combine, hs.len_interFills, ?_, hs.fin⟩
  intro t ht
  have hmem : (t.1, t.2.1, t.2.2) ∈ floatColumns := hs.cols_mem t ht
  exact ⟨fun parts hne => Flox.combine_parts _ _ _ hmem parts hne,
    fun p hp l₁ l₂ hne => Flox.absent_block_neutral _ _ _ hmem p hp l₁ l₂ hne⟩

/-- the table facts used by the end-to-end theorems (C01/C02/C05): shape, kernel, and the hypotheses `H_allnan`,
    `H_minmax`, `H_floxmean` hold for every such row (only `H_absent` is left to the caller) -/
theorem generated_rows_have_shape :
    ∀ row ∈ Generated.initRows, row.ok = true → row.dkind ∈ ["f8", "f4"] →
      row.func ∈ ["sum", "nansum", "prod", "nanprod", "max", "nanmax", "min", "nanmin", "count", "mean", "nanmean",
        "var", "nanvar", "std", "nanstd", "nanfirst", "nanlast"] →
      ∀ (user : Option Val) (mc ddof : Nat), row.mcPos = decide (mc > 0) →
        ∃ R s, row.resolve user mc ddof = some R ∧ R.shape? = some s
          ∧ kernelWithDdof ddof row.func = some s.kernel
          ∧ HAllNaN R s ∧ HMinMax R s ∧ HFloxMean R s
          ∧ R.name = row.func ∧ R.ddof = ddof
          ∧ (mc > 0 → R.minCount = mc) ∧ (mc = 0 → R.minCount ≤ 1)
          ∧ (row.userFill = "user" → R.userFill = user) := by
  intro row hrow hok hdk hfunc user mc ddof hmc
  obtain ⟨R, s, hf⟩ := Flox.generated_rows_have_shape row hrow hok hdk hfunc user mc ddof hmc
  exact ⟨R, s, hf.resolve, hf.shape, hf.kernel, hf.allnan, hf.minmax, hf.floxmean, hf.name, hf.ddof, hf.minCount,
    hf.minCount0, hf.userFill⟩

/-! ### non-vacuity -/

section
open Val

/-- 3 parts: one with a NaN, one where the group is absent, one plain – both sides computed independently by the
    kernel, for every column -/
example : ∀ t ∈ floatColumns,
    combineVal t.2.1 (exParts.map (blockVal t.1 t.2.2)) = blockVal t.1 t.2.2 exParts.flatten := by
  decide +kernel

/-- with an all-NaN part and infinities -/
example : ∀ t ∈ floatColumns,
    combineVal t.2.1 ([[nan, nan], [pinf, fin 3], [], [nan, fin 0]].map (blockVal t.1 t.2.2))
      = blockVal t.1 t.2.2 [nan, nan, pinf, fin 3, nan, fin 0] := by
  decide +kernel

example : combineVal .nanmax (exParts.map (blockVal .nanmax ninf)) = fin 5
    ∧ combineVal .nanmin (exParts.map (blockVal .nanmin pinf)) = fin (-2)
    ∧ combineVal .sum (exParts.map (blockVal .nansumsq zero)) = fin 30
    ∧ combineVal .nanlast (exParts.map (blockVal .nanlast nan)) = fin 5 := by decide +kernel

/-- `parts ≠ []` cannot be dropped from `combine_parts` (`nanmax`): -/
example : combineVal .nanmax (([] : List (List Val)).map (blockVal .nanmax ninf)) = nan
    ∧ blockVal .nanmax ninf ([] : List (List Val)).flatten = ninf := by decide +kernel

/-- `l₁ ++ l₂ ≠ []` cannot be dropped from `absent_block_neutral`: -/
example : combineVal .nanmax (([] ++ [] :: ([] : List (List Val))).map (blockVal .nanmax ninf))
    ≠ combineVal .nanmax (([] ++ ([] : List (List Val))).map (blockVal .nanmax ninf)) := by decide +kernel

/-- `var_split_combine_finalize` on `[1, -2 | | 4]`, ddof 1: both sides are 9 -/
example : onepass 1 (combineVal .sum ([[fin 1, fin (-2)], [], [fin 4]].map (blockVal .sumsq zero)))
      (combineVal .sum ([[fin 1, fin (-2)], [], [fin 4]].map (blockVal .sum zero)))
      (combineVal .sum ([[fin 1, fin (-2)], [], [fin 4]].map (blockVal .nanlen zero))) = fin 9
    ∧ kEval (.var 1) [fin 1, fin (-2), fin 4] = fin 9 := by decide +kernel

/-- the pair laws on concrete blocks (ties across blocks, a NaN, an all-NaN block) -/
example : Grp.combinePair .argmax (.fin 99) (Grp.AEx.pssA.map fun ps => Grp.blockPair .argmax (.fin 77) ps)
      = Grp.blockPair .argmax (.fin 55) Grp.AEx.pssA.flatten
    ∧ Grp.blockPair .argmax (.fin 55) Grp.AEx.pssA.flatten = (.nan, .fin 8) :=
  ⟨pairLaw_arg .argmax (Or.inl rfl) (fun _ => .fin 77) (.fin 99) (.fin 55) Grp.AEx.pssA (by decide)
    (by decide +kernel), by decide +kernel⟩

example : Grp.HArgFill .nanargmax (Grp.AEx.pssN.flatten.map (·.1))
    ∧ Grp.blockPair .nanargmax (.fin 55) Grp.AEx.pssN.flatten = (.fin 3, .fin 2) := by decide +kernel

end

/-- the table theorem is not vacuous: the float64 `nanvar` row with `min_count > 0` and a user fill exists and is `ok` -/
example : ∃ row ∈ Generated.initRows, row.ok = true ∧ row.dkind = "f8" ∧ row.func = "nanvar" ∧ row.mcPos = true := by
  decide +kernel

/-! ## user-defined `Aggregation` objects

  (theorems about custom blueprints executed by the same machinery are appended below) -/

end Flox.C04
