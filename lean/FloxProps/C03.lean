/-
  C03 — the result does not depend on the shape of the reduction tree (`split_every`, depth, bracketing), hence not on
  the order in which ready tasks run nor on the scheduler.

  WHAT IS MODELLED.  A dask graph of pure tasks computes a function of its dataflow only; the freedom a scheduler has is
  (a) the order in which independent tasks run and (b) – through `split_every` – how the per-block partial results are
  bracketed into a tree.  In the model every task is a pure Lean function, so (a) cannot influence the value by
  construction; (b) is what the theorems below are about:

    §1  one column of one group: ANY finitely-branching tree over the ordered per-block member lists evaluates to the
        single-block value (`PTree`: arbitrary arity at every node, arbitrary depth, absent / all-NaN blocks anywhere)
    §2  the whole pipeline: `runKnown` / `runUnknown` with any `split_every` (and any chunking) return the same result,
        for every plan that has a tree (map-reduce with `reindex=True` / `reindex=False`, cohorts, grouped combine,
        labels unknown until compute time)
    §3  scans: the binary operator of the parallel (Blelloch) scan is associative on states, so every bracketing of
        the per-block states represents the sequential prefix

  NOT MODELLED: thread interleavings / shared mutable state (that the tasks are pure and do not mutate their inputs
  is property C13, observed by the harness), and floating-point rounding (a different bracketing of a float sum may
  round differently; `Val` is exact, see C20).  Parts are always combined in ARRAY ORDER: no commutativity is used
  (and none holds for `nanfirst` / `nanlast` / arg-reductions, see C06).

  Property theorems only (helper lemmas live in FloxProofs).  Vocabulary as in C02 (`codeKeys`, `CodesOK`, `HAbsent`,
  `HMinMax`, `HDropped`, `CohortsSound`, `HCohortFill`).
-/
import FloxProofs.Tree
import FloxProofs.EndToEnd
import FloxProofs.EndToEndSparse
import FloxProofs.Cohorts
import FloxProofs.Grouped
import FloxProofs.ArgReduce
import FloxProofs.ScanChunked
import FloxProofs.EndToEndExamples
import FloxProofs.CohortsExamples

namespace Flox.C03

/-! ## §1 one column, one group: any tree -/

/-- **Tree-shape independence.**  `t : PTree` is an arbitrary tree whose leaves carry the member lists of one group
    inside the blocks, left to right; `t.eval k c f` applies the chunk kernel (`blockVal k f`: the group's
    intermediate in that block, `f` when it is absent) at the leaves and `_simple_combine`'s kernel `c` at every
    inner node.  For every built-in column `(k, c, f) ∈ floatColumns` (sum, nansum, prod, nanprod, max, nanmax, min,
    nanmin, count, sum-of-squares (both), all, any, nanfirst, nanlast) the value is the intermediate of the
    concatenated members – whatever the bracketing. -/
theorem ptree_eval_eq (k c : Kernel) (f : Val) (h : (k, c, f) ∈ floatColumns) (t : PTree) :
    t.eval k c f = blockVal k f t.leaves :=
  PTree.eval_eq k c f h t

/-- two reduction trees over the same members (any bracketing, any `split_every`, any depth, any placement of absent
    blocks) give the same value -/
theorem ptree_eval_congr (k c : Kernel) (f : Val) (h : (k, c, f) ∈ floatColumns)
    (t₁ t₂ : PTree) (hl : t₁.leaves = t₂.leaves) : t₁.eval k c f = t₂.eval k c f :=
  PTree.eval_congr k c f h t₁ t₂ hl

/-- in particular a tree evaluates to the flat one-level combine of its leaf blocks (`split_every ≥` number of
    blocks) -/
theorem ptree_eval_eq_flat (k c : Kernel) (f : Val) (h : (k, c, f) ∈ floatColumns)
    (t : PTree) (parts : List (List Val)) (hne : parts ≠ []) (hl : t.leaves = parts.flatten) :
    t.eval k c f = combineVal c (parts.map (blockVal k f)) :=
  PTree.eval_eq_flat k c f h t parts hne hl

/-! ## §2 the pipeline: any `split_every`, any chunking -/

/-- **map-reduce, `reindex=True`**: two calls that differ only in the chunking and in `split_every` (`c₁`, `c₂` are
    arbitrary calls with the same blueprint, engine and number of groups; `splitEvery`, `sort`, `fillArg` are free)
    return the same result.  Hypotheses as in `C02.mapreduce_dense_eq_spec`. -/
theorem mapreduce_dense_chunking_tree_irrelevant (R : Resolved) (s : Shape) (c₁ c₂ : Call) (n : Nat)
    (floatData : Bool) (chunks₁ chunks₂ : List Nat) (codes : List Int) (vals : List Val)
    (hR₁ : c₁.R = R) (heng₁ : c₁.eng = .npg) (hn₁ : c₁.ngroups = n) (hknown₁ : c₁.knownLabels = true)
    (hR₂ : c₂.R = R) (heng₂ : c₂.eng = .npg) (hn₂ : c₂.ngroups = n) (hknown₂ : c₂.knownLabels = true)
    (hshape : R.shape? = some s) (hcodes : CodesOK codes n) (hlen : codes.length = vals.length)
    (H_absent : ∀ g : Nat, g < n → HAbsent R (members (Int.ofNat g) codes vals))
    (H_minmax : HMinMax R s)
    (hchunks₁ : chunks₁ ≠ []) (hsum₁ : chunks₁.sum = codes.length)
    (hchunks₂ : chunks₂ ≠ []) (hsum₂ : chunks₂.sum = codes.length)
    (hcombine₁ : useGroupedCombine c₁ floatData = false) (hcombine₂ : useGroupedCombine c₂ floatData = false) :
    runKnown c₁ (.mapreduce true) floatData chunks₁ (codeKeys codes) vals
      = runKnown c₂ (.mapreduce true) floatData chunks₂ (codeKeys codes) vals :=
  Flox.mapreduce_dense_chunking_tree_irrelevant R s c₁ c₂ n floatData chunks₁ chunks₂ codes vals hR₁ heng₁ hn₁
    hknown₁ hR₂ heng₂ hn₂ hknown₂ hshape hcodes hlen H_absent H_minmax hchunks₁ hsum₁ hchunks₂ hsum₂ hcombine₁
    hcombine₂

/-- the same call with `split_every = k` instead of `c.splitEvery`: same result (the statement a user reads) -/
theorem split_every_irrelevant_dense (R : Resolved) (s : Shape) (c : Call) (k : Nat) (n : Nat)
    (floatData : Bool) (chunks : List Nat) (codes : List Int) (vals : List Val)
    (hR : c.R = R) (heng : c.eng = .npg) (hn : c.ngroups = n) (hknown : c.knownLabels = true)
    (hshape : R.shape? = some s) (hcodes : CodesOK codes n) (hlen : codes.length = vals.length)
    (H_absent : ∀ g : Nat, g < n → HAbsent R (members (Int.ofNat g) codes vals))
    (H_minmax : HMinMax R s)
    (hchunks : chunks ≠ []) (hsum : chunks.sum = codes.length)
    (hcombine : useGroupedCombine c floatData = false) :
    runKnown { c with splitEvery := k } (.mapreduce true) floatData chunks (codeKeys codes) vals
      = runKnown c (.mapreduce true) floatData chunks (codeKeys codes) vals :=
  Flox.mapreduce_dense_chunking_tree_irrelevant R s { c with splitEvery := k } c n floatData chunks chunks codes vals
    hR heng hn hknown hR heng hn hknown hshape hcodes hlen H_absent H_minmax hchunks hsum hchunks hsum hcombine
    hcombine

/-- **map-reduce, `reindex=False`** (every combine reindexes to the union of its inputs' groups, so the groups carried
    by an inner node depend on the bracketing – the result does not) -/
theorem mapreduce_sparse_chunking_tree_irrelevant (R : Resolved) (s : Shape) (c₁ c₂ : Call) (n : Nat)
    (floatData : Bool) (chunks₁ chunks₂ : List Nat) (codes : List Int) (vals : List Val)
    (hR₁ : c₁.R = R) (heng₁ : c₁.eng = .npg) (hn₁ : c₁.ngroups = n) (hknown₁ : c₁.knownLabels = true)
    (hR₂ : c₂.R = R) (heng₂ : c₂.eng = .npg) (hn₂ : c₂.ngroups = n) (hknown₂ : c₂.knownLabels = true)
    (hshape : R.shape? = some s) (hcodes : CodesOK codes n) (hlen : codes.length = vals.length)
    (H_dropped : HDropped R n codes vals) (H_minmax : HMinMax R s)
    (hsum₁ : chunks₁.sum = codes.length) (hsum₂ : chunks₂.sum = codes.length)
    (hcombine₁ : useGroupedCombine c₁ floatData = false) (hcombine₂ : useGroupedCombine c₂ floatData = false) :
    runKnown c₁ (.mapreduce false) floatData chunks₁ (codeKeys codes) vals
      = runKnown c₂ (.mapreduce false) floatData chunks₂ (codeKeys codes) vals :=
  Flox.mapreduce_sparse_chunking_tree_irrelevant R s c₁ c₂ n floatData chunks₁ chunks₂ codes vals hR₁ heng₁ hn₁
    hknown₁ hR₂ heng₂ hn₂ hknown₂ hshape hcodes hlen H_dropped H_minmax hsum₁ hsum₂ hcombine₁ hcombine₂

/-- the same call with another `split_every`, `reindex=False` -/
theorem split_every_irrelevant_sparse (R : Resolved) (s : Shape) (c : Call) (k : Nat) (n : Nat)
    (floatData : Bool) (chunks : List Nat) (codes : List Int) (vals : List Val)
    (hR : c.R = R) (heng : c.eng = .npg) (hn : c.ngroups = n) (hknown : c.knownLabels = true)
    (hshape : R.shape? = some s) (hcodes : CodesOK codes n) (hlen : codes.length = vals.length)
    (H_dropped : HDropped R n codes vals) (H_minmax : HMinMax R s)
    (hsum : chunks.sum = codes.length)
    (hcombine : useGroupedCombine c floatData = false) :
    runKnown { c with splitEvery := k } (.mapreduce false) floatData chunks (codeKeys codes) vals
      = runKnown c (.mapreduce false) floatData chunks (codeKeys codes) vals :=
  Flox.mapreduce_sparse_chunking_tree_irrelevant R s { c with splitEvery := k } c n floatData chunks chunks codes vals
    hR heng hn hknown hR heng hn hknown hshape hcodes hlen H_dropped H_minmax hsum hsum hcombine hcombine

/-- **cohorts**: flox builds one hand-written tree (`_tree_reduce`) PER COHORT over that cohort's blocks.  Two calls
    that differ in `split_every`, in the (sound) cohort structure, in the chunking and in `sort` return the same
    result.  Hypotheses as in `C02.cohorts_eq_spec`. -/
theorem cohorts_structure_irrelevant (R : Resolved) (s : Shape) (c₁ c₂ : Call) (n : Nat) (floatData : Bool)
    (chunks₁ chunks₂ : List Nat) (codes : List Int) (vals : List Val) (cs₁ cs₂ : List (List Nat × List Rat))
    (hR₁ : c₁.R = R) (heng₁ : c₁.eng = .npg) (hn₁ : c₁.ngroups = n) (hknown₁ : c₁.knownLabels = true)
    (hR₂ : c₂.R = R) (heng₂ : c₂.eng = .npg) (hn₂ : c₂.ngroups = n) (hknown₂ : c₂.knownLabels = true)
    (hshape : R.shape? = some s) (hlen : codes.length = vals.length)
    (hsound₁ : CohortsSound chunks₁ codes n cs₁) (hsound₂ : CohortsSound chunks₂ codes n cs₂)
    (H_absent₁ : ∀ co ∈ cs₁, ∀ g : Nat, ((g : Nat) : Rat) ∈ co.2 → HAbsent R (members (Int.ofNat g) codes vals))
    (H_absent₂ : ∀ co ∈ cs₂, ∀ g : Nat, ((g : Nat) : Rat) ∈ co.2 → HAbsent R (members (Int.ofNat g) codes vals))
    (H_minmax : HMinMax R s)
    (H_fill₁ : HCohortFill c₁ R n cs₁) (H_fill₂ : HCohortFill c₂ R n cs₂)
    (hsum₁ : chunks₁.sum = codes.length) (hsum₂ : chunks₂.sum = codes.length)
    (hcombine₁ : useGroupedCombine c₁ floatData = false) (hcombine₂ : useGroupedCombine c₂ floatData = false) :
    runKnown c₁ (.cohorts cs₁) floatData chunks₁ (codeKeys codes) vals
      = runKnown c₂ (.cohorts cs₂) floatData chunks₂ (codeKeys codes) vals :=
  Flox.cohorts_structure_irrelevant R s c₁ c₂ n floatData chunks₁ chunks₂ codes vals cs₁ cs₂ hR₁ heng₁ hn₁ hknown₁
    hR₂ heng₂ hn₂ hknown₂ hshape hlen hsound₁ hsound₂ H_absent₁ H_absent₂ H_minmax H_fill₁ H_fill₂ hsum₁ hsum₂
    hcombine₁ hcombine₂

/-- the same cohorts call with another `split_every` -/
theorem split_every_irrelevant_cohorts (R : Resolved) (s : Shape) (c : Call) (k : Nat) (n : Nat) (floatData : Bool)
    (chunks : List Nat) (codes : List Int) (vals : List Val) (cs : List (List Nat × List Rat))
    (hR : c.R = R) (heng : c.eng = .npg) (hn : c.ngroups = n) (hknown : c.knownLabels = true)
    (hshape : R.shape? = some s) (hlen : codes.length = vals.length)
    (hsound : CohortsSound chunks codes n cs)
    (H_absent : ∀ co ∈ cs, ∀ g : Nat, ((g : Nat) : Rat) ∈ co.2 → HAbsent R (members (Int.ofNat g) codes vals))
    (H_minmax : HMinMax R s)
    (H_fill : HCohortFill c R n cs)
    (hsum : chunks.sum = codes.length)
    (hcombine : useGroupedCombine c floatData = false) :
    runKnown { c with splitEvery := k } (.cohorts cs) floatData chunks (codeKeys codes) vals
      = runKnown c (.cohorts cs) floatData chunks (codeKeys codes) vals :=
  Flox.cohorts_structure_irrelevant R s { c with splitEvery := k } c n floatData chunks chunks codes vals cs cs
    hR heng hn hknown hR heng hn hknown hshape hlen hsound hsound H_absent H_absent H_minmax H_fill H_fill hsum hsum
    hcombine hcombine

/-- **labels unknown until compute time** (`_grouped_combine` at every node of the tree; the discovered labels are
    part of the result): any two chunkings and `split_every` values give the same `(labels, values)`.
    `H_allmissing`: every label missing together with `min_count > 0` and no fill value is excluded (see `C12` §4). -/
theorem runUnknown_chunking_tree_irrelevant (R : Resolved) (s : Shape) (c₁ c₂ : Call) (chunks₁ chunks₂ : List Nat)
    (keys : List Key) (vals : List Val)
    (hR₁ : c₁.R = R) (heng₁ : c₁.eng = .npg) (hR₂ : c₂.R = R) (heng₂ : c₂.eng = .npg) (hsort : c₁.sort = c₂.sort)
    (hshape : R.shape? = some s)
    (hlen : keys.length = vals.length)
    (H_minmax : HMinMax R s) (H_allmissing : Grp.HAllMissing R keys)
    (hchunks₁ : chunks₁ ≠ []) (hsum₁ : chunks₁.sum = keys.length)
    (hchunks₂ : chunks₂ ≠ []) (hsum₂ : chunks₂.sum = keys.length) :
    runUnknown c₁ chunks₁ keys vals = runUnknown c₂ chunks₂ keys vals :=
  Grp.runUnknown_chunking_tree_irrelevant R s c₁ c₂ chunks₁ chunks₂ keys vals hR₁ heng₁ hR₂ heng₂ hsort hshape hlen
    H_minmax H_allmissing hchunks₁ hsum₁ hchunks₂ hsum₂

/-- **arg-reductions**: "leftmost best (value, global index) pair" is associative – picking per block and then among
    the blocks' winners (in block order) is picking once over the concatenation; this is what makes every tree of
    `_grouped_combine` steps return the first occurrence of the extreme (see C06 for the pair laws). -/
theorem arg_pick_any_bracketing (k : Kernel) (pss : List (List Grp.VI)) (hne : pss ≠ [])
    (hall : ∀ ps ∈ pss, ps ≠ []) :
    Grp.pick1 k (pss.map (Grp.pick1 k)) = Grp.pick1 k pss.flatten :=
  Grp.pick1_flatten k pss hne hall

/-! ## §3 scans: every bracketing of the per-block states -/

/-- **associativity of the scan's binary operator, in the sense needed**: both bracketings of three adjacent block
    states represent the same history `a ++ b ++ c`.  (`Scan.Rep f S X`: the aligned arrays `S` carry, for every group,
    the last scan value of history `X`; `Scan.Good f l`: for `nancumsum` the data contain no ±inf – finding C10-F3,
    `C10.nancumsum_state_loses_nan_counterexample` – no condition for `ffill` / `bfill`.) -/
theorem scanBinop_assoc (f : Scan.Func) (a b c : Scan.AA) (ha : Scan.Good f a) (hb : Scan.Good f b)
    (hc : Scan.Good f c) :
    Scan.Rep f (Scan.combineState f (Scan.combineState f (Scan.groupedReduce f a) (Scan.groupedReduce f b))
        (Scan.groupedReduce f c)) (a ++ b ++ c) ∧
    Scan.Rep f (Scan.combineState f (Scan.groupedReduce f a) (Scan.combineState f (Scan.groupedReduce f b)
        (Scan.groupedReduce f c))) (a ++ b ++ c) := by
  constructor
  · exact Scan.rep_combine f _ _ _ _ (Scan.rep_combine f _ _ _ _ (Scan.rep_leaf f a) (Scan.rep_leaf f b) ha hb)
      (Scan.rep_leaf f c) (Scan.Good.append ha hb) hc
  · rw [List.append_assoc]
    exact Scan.rep_combine f _ _ _ _ (Scan.rep_leaf f a)
      (Scan.rep_combine f _ _ _ _ (Scan.rep_leaf f b) (Scan.rep_leaf f c) hb hc) ha (Scan.Good.append hb hc)

/-- **any bracketing** (`t : Scan.BTree`, a binary tree of block indices) of the per-block states gives the state of
    the blocks concatenated in leaf order – in particular every tree dask's Blelloch up-sweep / down-sweep builds
    gives the sequential prefix -/
theorem blelloch_eq_sequential (f : Scan.Func) (blocks : List Scan.AA) (h : ∀ b ∈ blocks, Scan.Good f b)
    (t : Scan.BTree) :
    Scan.Rep f (t.eval (Scan.combineState f) (fun j => Scan.groupedReduce f (blocks.getD j [])))
      ((t.leaves.map (blocks.getD · [])).flatten) :=
  Scan.tree_rep f blocks h t

/-- hence the chunked scan equals the grouped scan of the concatenated input for EVERY well-formed family of
    bracketings (`Scan.TreesOK trees m`: tree `i-1` brackets blocks `0..i-1` in order) -/
theorem scan_any_trees (f : Scan.Func) (trees₁ trees₂ : List Scan.BTree) (blocks : List Scan.AA)
    (h : ∀ b ∈ blocks, Scan.Good f b)
    (ht₁ : Scan.TreesOK trees₁ blocks.length) (ht₂ : Scan.TreesOK trees₂ blocks.length) :
    Scan.scanChunked f trees₁ blocks = Scan.scanChunked f trees₂ blocks := by
  rw [Scan.scanChunked_eq f trees₁ blocks h ht₁, Scan.scanChunked_eq f trees₂ blocks h ht₂]

/-! ### non-vacuity -/

/-- three bracketings `((a b) c) d`, `a (b (c d))`, flat – with an absent block, an all-NaN block and a NaN inside a
    block – agree on every built-in column (both sides computed by the kernel) -/
example : ∀ t ∈ floatColumns,
    exLeft.eval t.1 t.2.1 t.2.2 = exRight.eval t.1 t.2.1 t.2.2 ∧
    exLeft.eval t.1 t.2.1 t.2.2 = exFlat.eval t.1 t.2.1 t.2.2 ∧
    exLeft.eval t.1 t.2.1 t.2.2 = blockVal t.1 t.2.2 exLeft.leaves := by
  decide +kernel

example : exLeft.eval .nanmin .nanmin Val.pinf = Val.fin (-2) ∧ exRight.eval .nanlast .nanlast Val.nan = Val.pinf := by
  decide +kernel

example : exLeft.eval .nanmax .nanmax Val.ninf = exRight.eval .nanmax .nanmax Val.ninf :=
  ptree_eval_congr _ _ _ (by decide +kernel) _ _ (by decide +kernel)

open E2E in
/-- 8 blocks of one element: `split_every = 2` (depth 3), `3`, `8` (flat) – `split_every_irrelevant_dense` applies and
    the common value is a real one -/
example :
    runKnown { mkCall Rnanmean .npg 4 2 with splitEvery := 3 } (.mapreduce true) true [1, 1, 1, 1, 1, 1, 1, 1]
        (codeKeys codes8) vals8
      = runKnown (mkCall Rnanmean .npg 4 2) (.mapreduce true) true [1, 1, 1, 1, 1, 1, 1, 1] (codeKeys codes8) vals8
    ∧ runKnown (mkCall Rnanmean .npg 4 8) (.mapreduce true) true [1, 1, 1, 1, 1, 1, 1, 1] (codeKeys codes8) vals8
      = .ok [Val.fin (3/2), Val.fin (-1), Val.fin 4, Val.fin (-1)]
    ∧ runKnown (mkCall Rnanmean .npg 4 2) (.mapreduce true) true [1, 1, 1, 1, 1, 1, 1, 1] (codeKeys codes8) vals8
      = .ok [Val.fin (3/2), Val.fin (-1), Val.fin 4, Val.fin (-1)] :=
  ⟨split_every_irrelevant_dense Rnanmean (.mean true) (mkCall Rnanmean .npg 4 2) 3 4 true [1, 1, 1, 1, 1, 1, 1, 1]
      codes8 vals8 rfl rfl rfl rfl (by decide +kernel) codes8_ok rfl (fun _ _ => Or.inl (by decide))
      (by decide +kernel) (by decide) rfl (by decide +kernel),
    by decide +kernel, by decide +kernel⟩

open E2E in
/-- cohorts: `split_every` 2 vs 5, two different sound cohort structures, `sort` true vs false -/
example : runKnown (mkCall Rnanmean .npg 4 2) (.cohorts cs8a) true [2, 1, 3, 2] (codeKeys codes8) vals8
    = runKnown { mkCall Rnanmean .npg 4 5 with sort := false } (.cohorts cs8b) true [2, 1, 3, 2] (codeKeys codes8)
        vals8 :=
  cohorts_structure_irrelevant Rnanmean (.mean true) (mkCall Rnanmean .npg 4 2)
    { mkCall Rnanmean .npg 4 5 with sort := false } 4 true [2, 1, 3, 2] [2, 1, 3, 2] codes8 vals8 cs8a cs8b
    rfl rfl rfl rfl rfl rfl rfl rfl (by decide +kernel) rfl cs8a_sound cs8b_sound
    (fun _ _ _ _ => Or.inl (by decide)) (fun _ _ _ _ => Or.inl (by decide)) (by decide +kernel)
    ⟨fun _ _ _ => rfl, by decide +kernel⟩ ⟨fun _ _ _ => rfl, by decide +kernel⟩ rfl rfl (by decide +kernel)
    (by decide +kernel)

/-- order matters for `nanfirst`: the theorems above never permute blocks (no commutativity is available) -/
example : combineVal .nanfirst ([[Val.fin 1], [Val.fin 2]].map (blockVal .nanfirst Val.nan))
    ≠ combineVal .nanfirst ([[Val.fin 2], [Val.fin 1]].map (blockVal .nanfirst Val.nan)) := by decide +kernel

end Flox.C03
