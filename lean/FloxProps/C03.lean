import FloxProofs.ValAlgebra
namespace Flox.C03
/-- placeholder until the tree theorems are merged: the scalar combine `Val.add` is associative -/
theorem add_bracketing (a b c : Val) : Val.add (Val.add a b) c = Val.add a (Val.add b c) := Val.add_assoc a b c
end Flox.C03
