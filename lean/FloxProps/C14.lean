/-
  C14 – No side effects; results independent of call history and of co-computed results.

  Model: `FloxModel/State.lean` (registry of blueprints, the writes `_initialize_aggregation` / `groupby_scan` perform, memo
  tables keyed by the token of the full argument, process histories; task graphs as finite maps, union = later insertion wins;
  which call ingredients are hashed into each kind of task name).  The model's `copy` switch and the table of names are
  regenerated from the live code on every run (`FloxModel/Generated/TokenFields.lean`) and re-checked here by `decide`.

  The specification is `pureResult`: what a call returns as a function of its own arguments and of the pristine registry only,
  and, for co-computed results, `eval` of each graph alone.
-/
import FloxProofs.State
import FloxModel.Generated.TokenFields
import FloxModel.Generated.Registry

namespace Flox.C14
open Flox Flox.State

/-! ## the model as generated from the code -/

/-- every probed site of the real code works on a copy (regenerated on every run) -/
theorem copy_sites_ok : Generated.deepCopies = true := by decide

/-- the registry as imported -/
def registry₀ : Registry := Registry.ofRows Generated.registry Generated.scans

/-- one API call / a history in the model of the code as it is -/
def step (s : State) (c : ApiCall) : State × ApiResult := stepWith Generated.deepCopies s c
def run (s : State) (cs : List ApiCall) : State := runWith Generated.deepCopies s cs
def trace (s : State) (cs : List ApiCall) : List ApiResult := traceWith Generated.deepCopies s cs

/-! ## (a) no mutation of the registry or of a caller's Aggregation -/

/-- after ANY sequence of calls, from any state, the registry is what it was -/
theorem registry_invariant (s : State) (cs : List ApiCall) : (run s cs).registry = s.registry := by
  unfold run; rw [copy_sites_ok]; exact runWith_true_registry cs s

/-- a caller's own `Aggregation` object is returned to them unchanged, in any state -/
theorem arguments_unchanged (s : State) (a : InitArgs) (bp : Blueprint) (h : a.func = .user bp) :
    (step s (.init a)).2 = .init ⟨some (specialise bp a), some bp⟩ := by
  unfold step; rw [copy_sites_ok]
  simp [stepWith, initializeWith, h]

/-! ## (b) memoisation and history independence -/

/-- a memoised function returns what the pure function returns, and keeps its table sound, for any sound table
    (cachey keyed by `dask.base.tokenize(args)`, `functools.lru_cache`), provided the key determines the value -/
theorem memo_refines {α κ β : Type} [BEq κ] [LawfulBEq κ] (key : α → κ) (f : α → β) (tbl : List (κ × β)) (a : α)
    (hk : KeyCovers key f) (h : MemoSound key f tbl) :
    (memoCall key f tbl a).2 = f a ∧ MemoSound key f (memoCall key f tbl a).1 :=
  ⟨memoCall_result key f tbl a h, memoCall_sound key f tbl a hk h⟩

/-- entries may be evicted at any time without harm -/
theorem memo_evict_sound {α κ β : Type} [BEq κ] [LawfulBEq κ] (key : α → κ) (f : α → β) (keep : κ → Bool)
    (tbl : List (κ × β)) (h : MemoSound key f tbl) : MemoSound key f (evict keep tbl) :=
  evict_sound key f keep tbl h

/-- the empty caches are sound and every call keeps them sound -/
theorem caches_sound (reg : Registry) (cs : List ApiCall) : Inv (run (fresh reg) cs) := by
  unfold run; exact runWith_inv _ cs _ (inv_fresh reg)

/-- HISTORY INDEPENDENCE: after any history `cs` (from a fresh process, or from any state with sound caches) a call returns
    exactly what the specification says: a function of its arguments and of the pristine registry -/
theorem history_independent (s : State) (cs : List ApiCall) (c : ApiCall) (h : Inv s) :
    (step (run s cs) c).2 = pureResult s.registry c := by
  unfold step run; rw [copy_sites_ok]; exact history_independent_aux s cs c h

/-- in particular the same call made first in a fresh process and made after any history give the same result -/
theorem last_call_eq_first_call (reg : Registry) (cs : List ApiCall) (c : ApiCall) :
    (step (run (fresh reg) cs) c).2 = (step (fresh reg) c).2 := by
  rw [history_independent _ cs c (inv_fresh reg)]
  have := history_independent (fresh reg) [] c (inv_fresh reg)
  simpa [run, runWith] using this.symm

/-- every result of a history is the specified one -/
theorem trace_eq_spec (reg : Registry) (cs : List ApiCall) : trace (fresh reg) cs = cs.map (pureResult reg) := by
  unfold trace; rw [copy_sites_ok]; exact traceWith_true cs _ (inv_fresh reg)

/-! ### necessity: what the copies and the full keys prevent -/

def sumMc2 : ApiCall := .init { func := .named "sum", fill := "None", resolvedFinal := "0", minCount := 2, fk := none }

/-- WITHOUT the deep copy the registry entry accumulates an extra counter on every use: the second identical call returns a
    different blueprint (`nanlen` twice) and the registry has changed -/
theorem no_copy_counterexample :
    traceWith false (fresh registry₀) [sumMc2, sumMc2] ≠ [sumMc2, sumMc2].map (pureResult registry₀)
    ∧ (runWith false (fresh registry₀) [sumMc2]).registry ≠ registry₀ := by
  decide +kernel

/-- the same for scans: `ffill` on float32 data would leave its resolved identity behind for a later float64 call -/
theorem no_copy_scan_counterexample :
    traceWith false (fresh registry₀) [.scanInit "ffill" "float32", .scanInit "ffill" "float64"]
      ≠ [ApiCall.scanInit "ffill" "float32", .scanInit "ffill" "float64"].map (pureResult registry₀) := by
  decide +kernel

/-- a memo key that ignores the labels serves one label vector's chunks to another (KeyCovers is necessary) -/
theorem memo_key_counterexample :
    let key : ChunkKey → List Nat := fun k => k.1
    let t₁ := (memoCall key optimalFn [] ([2, 2], [0, 0, 1, 1])).1
    (memoCall key optimalFn t₁ ([2, 2], [0, 0, 0, 1])).2 ≠ optimalFn ([2, 2], [0, 0, 0, 1]) := by
  decide +kernel

/-! ## (c) co-computed results -/

/-- MERGE SAFETY: if two graphs agree on the keys they share, every key evaluates in the union (either insertion order)
    to the value it has in its own graph -/
theorem merge_safe {κ ω V : Type} [BEq κ] [LawfulBEq κ] (sem : ω → List V → V) (g₁ g₂ : Graph κ ω)
    (hc : Compatible g₁ g₂) (n : Nat) (k : κ) (v : V) :
    (eval sem g₁ n k = some v → eval sem (merge g₁ g₂) n k = some v ∧ eval sem (merge g₂ g₁) n k = some v) ∧
    (eval sem g₂ n k = some v → eval sem (merge g₁ g₂) n k = some v ∧ eval sem (merge g₂ g₁) n k = some v) :=
  ⟨fun h => ⟨merge_safe_left sem g₁ g₂ hc n k v h, merge_safe_right sem g₂ g₁ n k v h⟩,
   fun h => ⟨merge_safe_right sem g₁ g₂ n k v h, merge_safe_left sem g₂ g₁ (compatible_symm g₁ g₂ hc) n k v h⟩⟩

/-- every ingredient a kind of task depends on is hashed into its name, and so is everything hashed into the names it reads
    (tables `fieldsOfKind`, `meaningOfKind`, `depsOfKind` read off the source) -/
theorem tokenCovers_holds : tokenCovers = true := by decide

/-- the tables agree with the names the real API produces: for every generated pair of lazy results that differ in one
    ingredient, names of a kind that does not hash the ingredient are equal, names of a kind whose tasks depend on it are disjoint -/
theorem generated_rows_ok : Generated.tokenRows.all TokenRow.ok = true := by decide +kernel

/-- hence the graphs of ANY two configurations agree on shared names … -/
theorem names_compatible (c₁ c₂ : Config) : Compatible (configGraph c₁) (configGraph c₂) :=
  configGraph_compatible tokenCovers_holds c₁ c₂

/-- … and evaluating them together gives each layer the value it has alone, whatever the tasks compute -/
theorem names_merge_safe {V : Type} (sem : LayerOp → List V → V) (c₁ c₂ : Config) (n : Nat) (k : Kind) (v : V)
    (h : eval sem (configGraph c₁) n (layerName c₁ k) = some v) :
    eval sem (merge (configGraph c₁) (configGraph c₂)) n (layerName c₁ k) = some v ∧
    eval sem (merge (configGraph c₂) (configGraph c₁)) n (layerName c₁ k) = some v :=
  ((merge_safe sem _ _ (names_compatible c₁ c₂) n _ v).1 h)

/-- necessity of `Compatible`: two graphs that give different tasks the same key; in the union one result silently takes
    the other's value -/
theorem merge_unsafe_counterexample :
    let g₁ : Graph Nat Nat := [(0, ⟨7, []⟩), (1, ⟨1, [0]⟩)]      -- result 1 := f₁(input a)
    let g₂ : Graph Nat Nat := [(0, ⟨8, []⟩), (2, ⟨2, [0]⟩)]      -- result 2 := f₂(input b), input b under the SAME key 0
    eval codeSem (merge g₁ g₂) 3 1 ≠ eval codeSem g₁ 3 1 ∧ eval codeSem (merge g₂ g₁) 3 2 ≠ eval codeSem g₂ 3 2 := by
  decide +kernel

/-- necessity of the token covering the meaning: were `min_count` not hashed into the names (as before the fix in /repo),
    two configurations differing only there would share every name while their tasks differ -/
theorem uncovered_token_counterexample :
    let fields' : Kind → List Ingredient := fun k => (fieldsOfKind k).filter (· ≠ .minCount)
    let c₁ : Config := fun _ => 0
    let c₂ : Config := fun i => if i = .minCount then 1 else 0
    (Kind.chunk, (fields' .chunk).map c₁) = (Kind.chunk, (fields' .chunk).map c₂) ∧ layerTask c₁ .chunk ≠ layerTask c₂ .chunk := by
  decide +kernel

/-! ## non-vacuity -/

/-- a history that exercises every kind of call, with cache hits, evictions and a user blueprint -/
def demoHistory : List ApiCall :=
  [ sumMc2, .optimalChunks [2, 2] [0, 0, 0, 1], .init { func := .named "nanmax", fill := "None", resolvedFinal := "nan", minCount := 0, fk := none },
    .optimalChunks [2, 2] [0, 0, 0, 1], .getParts [(0, 2)] [[1, 1, 1]], .scanInit "bfill" "float32", .evictChunks 0,
    .init { func := .user { name := "mine", numpy := ["sum"], chunk := ["sum"], combine := ["sum"], interFills := ["0"], numpyFills := [],
                            userFill := "unset", finalFill := "NA", minCount := 0, finalizeKwargs := [], isArg := false },
            fill := "-7", resolvedFinal := "-7", minCount := 1, fk := some [("ddof", "1")] },
    .getParts [(0, 2)] [[1, 1, 1]], sumMc2 ]

example : (step (run (fresh registry₀) demoHistory) sumMc2).2 = (step (fresh registry₀) sumMc2).2 :=
  last_call_eq_first_call registry₀ demoHistory sumMc2

-- the results are not trivial: the blueprint is really specialised, the planner really moves a boundary, the cache is hit
example : (step (fresh registry₀) sumMc2).2 =
    .init ⟨some { name := "sum", numpy := ["sum", "nanlen"], chunk := ["sum", "nanlen"], combine := ["sum", "sum"],
                  interFills := ["0", "0"], numpyFills := ["0", "0"], userFill := "None", finalFill := "0", minCount := 2,
                  finalizeKwargs := [], isArg := false }, none⟩ := by decide +kernel
example : (step (fresh registry₀) (.optimalChunks [2, 2] [0, 0, 0, 1])).2 = .chunks [3, 1] := by decide +kernel
example : (run (fresh registry₀) demoHistory).chunkCache.length = 0 ∧ (run (fresh registry₀) demoHistory).partsCache.length = 1 := by
  decide +kernel

-- `Compatible` is satisfiable by graphs that really share keys, and the union then evaluates both results
example :
    let g₁ : Graph Nat Nat := [(0, ⟨7, []⟩), (1, ⟨1, [0]⟩)]
    let g₂ : Graph Nat Nat := [(0, ⟨7, []⟩), (2, ⟨2, [0]⟩)]
    compatibleB g₁ g₂ = true ∧ eval codeSem (merge g₁ g₂) 3 1 = eval codeSem g₁ 3 1 ∧ (eval codeSem g₁ 3 1).isSome
      ∧ eval codeSem (merge g₁ g₂) 3 2 = eval codeSem g₂ 3 2 := by decide +kernel

-- two configurations that differ only in the labels share the value layer and the arg-reduction preprocessing, nothing else
example :
    let c₁ : Config := fun _ => 0
    let c₂ : Config := fun i => if i = .labels then 1 else 0
    layerName c₁ .argPre = layerName c₂ .argPre ∧ layerName c₁ .values = layerName c₂ .values ∧
    layerName c₁ .chunk ≠ layerName c₂ .chunk ∧ layerName c₁ .result ≠ layerName c₂ .result := by decide +kernel

end Flox.C14
