/-
  C13 — generated tasks are pure, re-executable and serialisable; HENCE a graph can be executed concurrently (any
  interleaving), re-executed after a lost worker, or shipped to another process without changing the result.

  Division of labour
  ------------------
  * That each Python callable in a flox graph leaves its inputs untouched, returns an equal value when called again and
    survives `cloudpickle` is a RUNTIME fact about CPython objects.  It is observed, task by task, by the instrumented
    executor of the harness (harness/props_purity.py: read-only + hashed inputs, double execution, pickling, lost results,
    frozen user arrays, threaded runs) on real graphs of every reduction / scan / strategy / engine.
  * What is PROVED here is the consequence ("hence …"), for ALL graphs, ALL schedules and ALL sizes:
      Model : `Flox.Graph.evalOrder` / `runOps` – a scheduler with a memo table that may execute the tasks in any
              dependency-respecting order, execute any task again at any later time, lose results and recompute them,
              and receive tasks through a faithful round trip (FloxModel/Graph.lean).
      Spec  : `Flox.Graph.Solution g den` – the value of every key is its task's function applied to the values of the
              keys it reads; no schedule is mentioned.
      Ties  : the harness feeds the key/dependency structure of every real graph and the very schedules it executed to the
              driver (`graph` op): the model must accept them, give the same table for all of them, and the table of an
              independent Python evaluation must satisfy `Solution`; the model's prediction "same key ⇒ same value in
              every schedule" is compared with the digests of the real values.
  * The hypothesis "a task is a FUNCTION of its inputs" is what the model's `Task.fn : List V → V` expresses.  Its
    necessity is shown by `counterexample_impure_*`: over tasks that write into an input that a sibling reads (`ITask`),
    the same scheduler gives results that depend on the order and on re-execution.

  PARTIAL by nature: purity of the Python callables is not provable in a functional model; aliasing views and pickling
  of closures are covered by execution only.
-/
import FloxProofs.Graph

namespace Flox.C13
open Flox.Graph

variable {K V : Type} [DecidableEq K]

/-! ### (0) model = spec -/

/-- the table computed by ANY complete dependency-respecting schedule is a solution of the graph's equations … -/
theorem eval_is_solution (g : Graph K V) (order : List K) (m : Memo K V)
    (h : evalOrder g order Memo.empty = some m) (hc : Complete g order) : Solution g m :=
  eval_solution h hc

/-- … and it is the only one (a graph that can be executed at all has exactly one meaning) -/
theorem solution_unique (g : Graph K V) (order : List K) (m den : Memo K V)
    (h : evalOrder g order Memo.empty = some m) (hc : Complete g order) (hs : Solution g den) : m = den :=
  Flox.Graph.solution_unique h hc hs

/-! ### (1) any interleaving -/

/-- any two dependency-respecting complete schedules (each may execute tasks several times) give the same memo table -/
theorem eval_order_irrelevant (g : Graph K V) (o₁ o₂ : List K) (m₁ m₂ : Memo K V)
    (h₁ : evalOrder g o₁ Memo.empty = some m₁) (h₂ : evalOrder g o₂ Memo.empty = some m₂)
    (c₁ : Complete g o₁) (c₂ : Complete g o₂) : m₁ = m₂ :=
  eval_same_keys h₁ h₂ fun k => by rw [complete_iff h₁ c₁ k, complete_iff h₂ c₂ k]

/-- partial schedules: executing the same set of keys gives the same table … -/
theorem eval_same_keys (g : Graph K V) (o₁ o₂ : List K) (m₁ m₂ : Memo K V)
    (h₁ : evalOrder g o₁ Memo.empty = some m₁) (h₂ : evalOrder g o₂ Memo.empty = some m₂)
    (hk : ∀ k, k ∈ o₁ ↔ k ∈ o₂) : m₁ = m₂ :=
  Flox.Graph.eval_same_keys h₁ h₂ hk

/-- … and two arbitrary successful schedules never disagree on a key both have computed -/
theorem eval_agree_on_common (g : Graph K V) (o₁ o₂ : List K) (m₁ m₂ : Memo K V)
    (h₁ : evalOrder g o₁ Memo.empty = some m₁) (h₂ : evalOrder g o₂ Memo.empty = some m₂)
    (k : K) (v₁ v₂ : V) (e₁ : m₁ k = some v₁) (e₂ : m₂ k = some v₂) : v₁ = v₂ :=
  eval_agree (eval_consistent (consistent_empty g) h₂) (agree_empty _) h₁ k v₁ v₂ e₁ e₂

/-! ### (2) re-execution -/

/-- executing again a task whose result is present changes nothing (and is always possible) -/
theorem reexecute_noop (g : Graph K V) (order : List K) (m : Memo K V) (h : evalOrder g order Memo.empty = some m)
    (k : K) (hk : k ∈ order) : step g m k = some m := by
  have hc := eval_consistent (consistent_empty g) h
  have : (m k).isSome := (eval_dom h k).mpr (Or.inr hk)
  obtain ⟨v, hv⟩ := Option.isSome_iff_exists.mp this
  exact step_replay hc hv

/-- re-executing any subset of tasks any number of times, each at any position after its first execution
    (`Replays [] o o'`), is possible and does not change the final table -/
theorem eval_replay (g : Graph K V) (o o' : List K) (m : Memo K V) (hr : Replays [] o o')
    (h : evalOrder g o Memo.empty = some m) : evalOrder g o' Memo.empty = some m :=
  eval_replays hr (consistent_empty g) (by simp) h

/-- special case: one extra execution of `k` inserted at any point after `k` ran -/
theorem eval_replay_insert (g : Graph K V) (p s : List K) (k : K) (m : Memo K V) (hk : k ∈ p)
    (h : evalOrder g (p ++ s) Memo.empty = some m) : evalOrder g (p ++ k :: s) Memo.empty = some m :=
  eval_replay g _ _ m (replays_insert k s p [] (Or.inr hk)) h

/-- special case: after the whole schedule, any tasks of it are executed once more in ANY order (not even
    dependency-respecting: everything they need is there) -/
theorem eval_replay_after (g : Graph K V) (o extra : List K) (m : Memo K V) (he : ∀ k ∈ extra, k ∈ o)
    (h : evalOrder g o Memo.empty = some m) : evalOrder g (o ++ extra) Memo.empty = some m :=
  eval_replay g _ _ m (replays_twice o [] extra fun k hk => Or.inr (he k hk)) h

/-! ### (2') lost workers -/

/-- a schedule that also LOSES results (any of them, at any time) and recomputes what it needs never stores a value
    different from the graph's solution … -/
theorem eval_with_loss_sub (g : Graph K V) (den : Memo K V) (hs : Solution g den) (ops : List (Op K)) (m : Memo K V)
    (h : runOps g ops Memo.empty = some m) (k : K) (v : V) (hk : m k = some v) : den k = some v :=
  runOps_sub hs (sub_empty den) h k v hk

/-- … so once every key is present again the table is the one of an undisturbed run -/
theorem eval_with_loss (g : Graph K V) (order : List K) (m₀ : Memo K V)
    (h₀ : evalOrder g order Memo.empty = some m₀) (hc : Complete g order)
    (ops : List (Op K)) (m : Memo K V) (h : runOps g ops Memo.empty = some m)
    (hall : ∀ k ∈ g.keys, (m k).isSome) : m = m₀ := by
  have hs := eval_solution h₀ hc
  have hsub := runOps_sub hs (sub_empty m₀) h
  refine memo_ext_of_agree (fun k v₁ v₂ e₁ e₂ => ?_) fun k => ⟨fun hk => ?_, fun hk => ?_⟩
  · have := hsub k v₁ e₁; rw [e₂] at this; cases this; rfl
  · obtain ⟨v, hv⟩ := Option.isSome_iff_exists.mp hk
    simp [hsub k v hv]
  · exact hall k ((solution_dom hs k).mp hk)

/-- schedules without losses are the plain ones -/
theorem runOps_exec (g : Graph K V) (o : List K) (m : Memo K V) : runOps g (o.map Op.exec) m = evalOrder g o m :=
  Flox.Graph.runOps_exec g o m

/-! ### (3) shipping tasks to another process -/

/-- a graph whose tasks went through a faithful round trip (same keys read, same value on every argument list)
    behaves identically under every schedule -/
theorem eval_shipped (rt : K → Task K V → Task K V) (hf : Faithful rt) (g : Graph K V) (ops : List (Op K))
    (m : Memo K V) : runOps (ship rt g) ops m = runOps g ops m := by
  rw [ship_eq_self hf g]

/-! ### (4) purity is the needed hypothesis -/

/-- the scheduler over impure tasks coincides with the pure one when no task writes anything -/
theorem pure_embeds (g : Graph K V) (o : List K) (m : Memo K V) : ievalOrder g.toI o m = evalOrder g o m :=
  ievalOrder_toI g o m

/-- key 0 = the shared label codes (value 5); key 1 = a factorisation that reads the codes, returns `codes + 10` AND
    writes the missing-label sentinel 0 into the codes buffer in place (what `_factorize_single` would do without its
    defensive copy); key 2 = a sibling that reads the same codes -/
def impureGraph : IGraph Nat Nat :=
  [ (0, { deps := [], fn := fun _ => 5, writes := fun _ => [] }),
    (1, { deps := [0], fn := fun xs => xs.sum + 10, writes := fun _ => [(0, 0)] }),
    (2, { deps := [0], fn := fun xs => xs.sum, writes := fun _ => [] }) ]

/-- FULL STATEMENT THAT FAILS without purity:
      `∀ g o₁ o₂, both complete and successful → ievalOrder g o₁ ∅ = ievalOrder g o₂ ∅`.
    With an in-place write the sibling's value depends on the interleaving … -/
theorem counterexample_impure_order :
    (ievalOrder impureGraph [0, 1, 2] Memo.empty).map (table · [0, 1, 2]) = some [some 0, some 15, some 0] ∧
    (ievalOrder impureGraph [0, 2, 1] Memo.empty).map (table · [0, 1, 2]) = some [some 0, some 15, some 5] := by
  decide

/-- … and re-executing the writing task gives a different value the second time -/
theorem counterexample_impure_replay :
    (ievalOrder impureGraph [0, 1] Memo.empty).map (table · [0, 1]) = some [some 0, some 15] ∧
    (ievalOrder impureGraph [0, 1, 1] Memo.empty).map (table · [0, 1]) = some [some 0, some 10] := by
  decide

/-! ### non-vacuity: a map-reduce shaped graph (two array blocks sharing one label block, blockwise + combine + finalize) -/

/-- 0,1 = array blocks; 2 = label block shared by both chunk tasks; 3,4 = chunk_reduce; 5 = combine; 6 = finalize -/
def exGraph : Graph Nat Int :=
  [ (0, { deps := [], fn := fun _ => 3 }), (1, { deps := [], fn := fun _ => 4 }), (2, { deps := [], fn := fun _ => 7 }),
    (3, { deps := [0, 2], fn := fun xs => xs.sum }), (4, { deps := [1, 2], fn := fun xs => 2 * xs.sum }),
    (5, { deps := [3, 4], fn := fun xs => xs.sum }), (6, { deps := [5], fn := fun xs => xs.sum - 1 }) ]

example : (evalOrder exGraph [0, 1, 2, 3, 4, 5, 6] Memo.empty).map (table · [0, 1, 2, 3, 4, 5, 6])
    = some [some 3, some 4, some 7, some 10, some 22, some 32, some 31] := by decide
/-- another interleaving with re-executions (hypotheses of `eval_order_irrelevant` / `eval_replay` are satisfiable) -/
example : (evalOrder exGraph [2, 1, 4, 0, 4, 3, 2, 5, 3, 6, 5] Memo.empty).map (table · [0, 1, 2, 3, 4, 5, 6])
    = some [some 3, some 4, some 7, some 10, some 22, some 32, some 31] := by decide
example : Complete exGraph [2, 1, 4, 0, 4, 3, 2, 5, 3, 6, 5] := by unfold Complete; decide
example : Replays [] [0, 1, 2, 3] [0, 1, 0, 2, 3, 1, 3] :=
  .keep _ _ _ _ (.keep _ _ _ _ (.again _ _ _ _ (by decide) (.keep _ _ _ _ (.keep _ _ _ _
    (.again _ _ _ _ (by decide) (.again _ _ _ _ (by decide) (.nil _)))))))
/-- a schedule that does not respect dependencies is rejected (the hypotheses are not trivially true) -/
example : (evalOrder exGraph [0, 3] Memo.empty).isNone = true := by decide
/-- losing results: block 0's chunk result and the shared labels are lost after the combine, then recomputed -/
example : (runOps exGraph [.exec 0, .exec 1, .exec 2, .exec 3, .exec 4, .exec 5, .lose 3, .lose 2, .lose 5, .exec 6 ] Memo.empty).isNone
    = true := by decide
example : (runOps exGraph [.exec 0, .exec 1, .exec 2, .exec 3, .exec 4, .exec 5, .lose 3, .lose 2, .lose 5, .exec 2, .exec 3,
      .exec 5, .exec 6] Memo.empty).map (table · [0, 1, 2, 3, 4, 5, 6])
    = some [some 3, some 4, some 7, some 10, some 22, some 32, some 31] := by decide
example : isSolutionOn exGraph (fun k => [3, 4, 7, 10, 22, 32, 31][k]?) [0, 1, 2, 3, 4, 5, 6, 7, 8] = true := by decide
/-- a wrong table is not a solution -/
example : isSolutionOn exGraph (fun k => [3, 4, 7, 10, 22, 33, 32][k]?) [0, 1, 2, 3, 4, 5, 6] = false := by decide
/-- a faithful round trip that is not the identity syntactically -/
example : Faithful (fun (_ : Nat) (t : Task Nat Int) => { deps := t.deps ++ [], fn := fun xs => t.fn xs + 0 }) := by
  intro k t; simp

end Flox.C13
