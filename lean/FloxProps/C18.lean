/-
  C18 — grouped order statistics (median / nanmedian / quantile / nanquantile) match NumPy's
  linear-interpolation quantiles.  Property theorems only (helper lemmas live in FloxProofs.Quantile).

  Model:  `Quantile.engineFlox`  (= `aggregate_flox.quantile_` behind `_np_grouped_op`, engine="flox"),
          `Quantile.engineNpg`   (= `aggregate_npg.quantile` & co., engine="numpy"),
          `Quantile.runEager` / `runChunked` (the path through `groupby_reduce`).
  Spec:   `Quantile.Spec.quantile skipna q members` = `np.quantile` / `np.nanquantile` (method="linear").
-/
import FloxProofs.QuantileApi

namespace Flox.C18
open Flox.Quantile

/-- **engine flox, all four reductions — the full property at the level of one `chunk_reduce` call.**
    For every array of finite values and NaNs, any (unsorted) codes, any `q ∈ [0,1]`, either NaN policy and every
    slot `g`: the slot holds `np.quantile` (`skipna = false`: NaN as soon as one member is NaN) resp.
    `np.nanquantile` (`skipna = true`: NaN members dropped, NaN for an all-NaN group) of exactly the members of
    group `g`, and the fill when the group has no member. -/
theorem grouped_quantile_eq_spec (skipna : Bool) (q : Rat) (hq0 : 0 ≤ q) (hq1 : q ≤ 1) (codes : List Int)
    (vals : List Val) (hfin : NoInf vals) (size : Nat) (fill : Val) (g : Nat) (hg : g < size) :
    (engineFlox skipna q codes vals size fill)[g]? = (Spec.grouped skipna q codes vals size fill)[g]? := by
  rw [engineFlox_slot _ _ _ _ _ _ g hg]
  simp only [Spec.grouped, List.getElem?_map, List.getElem?_range hg, Option.map_some, List.isEmpty_iff]
  by_cases hm : members (Int.ofNat g) codes vals = []
  · rw [if_pos hm, if_pos hm]
  · rw [if_neg hm, if_neg hm, cellR_correct skipna q hq0 hq1 codes vals hfin _ hm]

/-- the same as an equation between whole result vectors -/
theorem engineFlox_eq_spec (skipna : Bool) (q : Rat) (hq0 : 0 ≤ q) (hq1 : q ≤ 1) (codes : List Int)
    (vals : List Val) (hfin : NoInf vals) (size : Nat) (fill : Val) :
    engineFlox skipna q codes vals size fill = Spec.grouped skipna q codes vals size fill := by
  apply List.ext_getElem?
  intro g
  by_cases hg : g < size
  · exact grouped_quantile_eq_spec skipna q hq0 hq1 codes vals hfin size fill g hg
  · have h1 : (engineFlox skipna q codes vals size fill).length ≤ g := by
      rw [engineFlox_length]; omega
    have h2 : (Spec.grouped skipna q codes vals size fill).length ≤ g := by
      simp [Spec.grouped]; omega
    rw [List.getElem?_eq_none h1, List.getElem?_eq_none h2]

/-- NaN-propagating variants (`quantile`, `median`) -/
theorem quantile_eq_spec (q : Rat) (hq0 : 0 ≤ q) (hq1 : q ≤ 1) (codes : List Int) (vals : List Val)
    (hfin : NoInf vals) (size : Nat) (fill : Val) (g : Nat) (hg : g < size) :
    (engineFlox false q codes vals size fill)[g]? = (Spec.grouped false q codes vals size fill)[g]? :=
  grouped_quantile_eq_spec false q hq0 hq1 codes vals hfin size fill g hg

/-- NaN-skipping variants (`nanquantile`, `nanmedian`) — full since the repair of C18-F1 (7ebd75b): all-NaN
    groups included, no hypothesis on the group -/
theorem nanquantile_eq_spec (q : Rat) (hq0 : 0 ≤ q) (hq1 : q ≤ 1) (codes : List Int) (vals : List Val)
    (hfin : NoInf vals) (size : Nat) (fill : Val) (g : Nat) (hg : g < size) :
    (engineFlox true q codes vals size fill)[g]? = (Spec.grouped true q codes vals size fill)[g]? :=
  grouped_quantile_eq_spec true q hq0 hq1 codes vals hfin size fill g hg

/-- groups absent from the data get the fill, in both variants (no hypothesis on the values) -/
theorem absent_group_fill (skipna : Bool) (q : Rat) (codes : List Int) (vals : List Val) (size : Nat) (fill : Val)
    (g : Nat) (hg : g < size) (habs : members (Int.ofNat g) codes vals = []) :
    (engineFlox skipna q codes vals size fill)[g]? = some fill := by
  rw [engineFlox_slot _ _ _ _ _ _ g hg, if_pos habs]

/-- the former counterexample (finding C18-F1, repaired by 7ebd75b): an all-NaN group between two groups now
    gets NaN, as `np.nanmedian` gives -/
example :
    engineFlox true (1/2) [0, 0, 1, 1, 2, 2] [.fin 1, .fin 2, .nan, .nan, .fin 5, .fin 7] 3 .nan
        = [.fin (3/2), .nan, .fin 6]
      ∧ Spec.grouped true (1/2) [0, 0, 1, 1, 2, 2] [.fin 1, .fin 2, .nan, .nan, .fin 5, .fin 7] 3 .nan
        = [.fin (3/2), .nan, .fin 6] := by
  decide +kernel

/-- one slot per code, whatever the data -/
theorem result_length (skipna : Bool) (q : Rat) (codes : List Int) (vals : List Val) (size : Nat) (fill : Val) :
    (engineFlox skipna q codes vals size fill).length = size :=
  engineFlox_length skipna q codes vals size fill

/-- engine="numpy": numpy_groupies hands every group's members to `np.quantile`/`np.nanquantile`
    (third-party contract written into the model) – the specification itself, all-NaN groups included -/
theorem npg_eq_spec (skipna : Bool) (q : Rat) (codes : List Int) (vals : List Val) (size : Nat) (fill : Val) :
    engineNpg skipna q codes vals size fill = Spec.grouped skipna q codes vals size fill := rfl

/-- `_lerp` between two finite bounds is exact linear interpolation (both branches, `t < 0.5` and `t ≥ 0.5`) -/
theorem lerp_exact (a b t : Rat) : lerp (Val.fin a) (Val.fin b) t = Val.fin (a + (b - a) * t) :=
  lerp_fin a b t

/-- `_lerp` returns the lower bound at `γ = 0` … -/
theorem lerp_at_zero (a b : Rat) : lerp (Val.fin a) (Val.fin b) 0 = Val.fin a := lerp_zero a b

/-- … and a value between the bounds for `0 ≤ γ ≤ 1` -/
theorem lerp_within_bounds (a b t : Rat) (hab : a ≤ b) (h0 : 0 ≤ t) (h1 : t ≤ 1) :
    ∃ r, lerp (Val.fin a) (Val.fin b) t = Val.fin r ∧ a ≤ r ∧ r ≤ b :=
  lerp_between a b t hab h0 h1

/-- the index arithmetic stays inside the group's zone: for `q ∈ [0,1]` and `n ≥ 1` valid members
    `0 ≤ ⌊q(n−1)⌋ ≤ ⌈q(n−1)⌉ ≤ n−1` -/
theorem virtual_index_in_range (q : Rat) (hq0 : 0 ≤ q) (hq1 : q ≤ 1) (n : Nat) (hn : 0 < n) :
    0 ≤ (q * (((n : Int) - 1 : Int) : Rat)).floor
      ∧ (q * (((n : Int) - 1 : Int) : Rat)).floor ≤ (q * (((n : Int) - 1 : Int) : Rat)).ceil
      ∧ (q * (((n : Int) - 1 : Int) : Rat)).ceil ≤ (n : Int) - 1 :=
  virtual_bounds q hq0 hq1 n hn

/-- **vector `q`: one leading axis, in the order given; scalar `q`: none** — for every input (full since the
    repair of C18-F3, a8e0051).  The result for a vector is the concatenation (C order = leading axis) of the
    results for its entries. -/
theorem q_vector_axis (func : QFunc) (hf : func.isQuantile = true) (qs : List Rat) (labels : List Key)
    (rows : List (List Val)) (batch1d : Bool) :
    (runEager ⟨func, .flox, some (.vector qs)⟩ labels rows batch1d).shape
        = qs.length :: (runEager ⟨func, .flox, some (.scalar 0)⟩ labels rows batch1d).shape
      ∧ (runEager ⟨func, .flox, some (.vector qs)⟩ labels rows batch1d).vals
        = qs.flatMap fun q => (runEager ⟨func, .flox, some (.scalar q)⟩ labels rows batch1d).vals :=
  runEager_vector func hf qs labels rows batch1d

/-- every label missing (former finding C18-F3): the empty result keeps the q axis -/
example :
    (runEager ⟨.nanquantile, .flox, some (.vector [1/4, 1/2])⟩ [none, none] [[.fin 1, .fin 2]] true).shape = [2, 0]
      ∧ (runEager ⟨.nanquantile, .flox, some (.scalar 0)⟩ [none, none] [[.fin 1, .fin 2]] true).shape = [0] := by
  decide +kernel

/-- **the eager call as a whole equals the specification** (engine flox): validation of `q`, factorisation of
    unsorted / missing labels, the NaN-label sentinel of `chunk_reduce`, every batch row, scalar and vector `q`,
    result shape and values.  `reqQs rq` are the levels asked for (`[1/2]` for the medians). -/
theorem eager_eq_spec (rq : QRequest) (heng : rq.eng = .flox) (hq : ∀ q ∈ reqQs rq, 0 ≤ q ∧ q ≤ 1)
    (labels : List Key) (rows : List (List Val)) (batch1d : Bool) (hfin : ∀ row ∈ rows, NoInf row) :
    runEager rq labels rows batch1d = specRun rq labels rows batch1d :=
  runEager_eq_specRun rq heng hq labels rows batch1d hfin

/-- **one block of the blockwise plan** returns, for every label present in the block (ascending), the NumPy
    quantile of that label's members inside the block – hence of the whole group when every group lies within one
    block.  (The bookkeeping that concatenates the blocks and re-indexes them is in the executable model and
    checked by correspondence only.) -/
theorem blockwise_block_eq_spec (eng : Eng) (skipna : Bool) (qs : List Rat) (hq : ∀ q ∈ qs, 0 ≤ q ∧ q ≤ 1)
    (ks : List Key) (vs : List Val) (hfin : NoInf vs)
    (hne : (factorizeKeys ks none true).2.all (· == -1) = false) :
    chunkQuantile eng skipna qs ks vs none
      = ((factorizeKeys ks none true).1.map some,
         qs.map fun q => Spec.grouped skipna q (factorizeKeys ks none true).2 vs
                            (factorizeKeys ks none true).1.length Val.nan) :=
  chunkQuantile_block eng skipna qs hq ks vs hfin hne

/-- **chunked input is computed only under the blockwise plan**: any other explicit method is refused with
    `NotImplementedError`, and without an explicit method the call is refused (`ValueError`) unless every group
    lies within one block. -/
theorem chunked_only_blockwise (method : Option Method) (pref : Bool) :
    (∀ m, chooseMethod method pref = .ok m → m = .blockwise ∧ (method = some .blockwise ∨ (method = none ∧ pref = true)))
    ∧ (method = none → pref = false → chooseMethod method pref = .error "ValueError")
    ∧ (method = some .mapreduce ∨ method = some .cohorts → chooseMethod method pref = .error "NotImplementedError") := by
  cases method with
  | none => cases pref <;> simp [chooseMethod]
  | some m => cases m <;> simp [chooseMethod]

/-- a refused plan yields no values at all -/
theorem chunked_refused (rq : QRequest) (method : Option Method) (uc c : List Nat) (labels : List Key)
    (rows : List (List Val)) (b : Bool) (e : String)
    (h : chooseMethod method (prefersBlockwise uc (factorizeKeys labels none true).2) = .error e)
    (hv : ∃ x, validate rq = .ok x) :
    runChunked rq method uc c labels rows b = .err e := by
  obtain ⟨x, hx⟩ := hv
  unfold runChunked
  rw [hx]
  simp only
  rw [h]

/-! ### non-vacuity: the hypotheses are satisfiable on concrete, non-trivial inputs -/

-- unsorted codes, NaNs in two groups, an all-NaN group (1) between others, an absent group (4); q = 1/4
example : NoInf [.fin 4, .nan, .fin 1, .fin 7, .nan, .fin 2, .fin 5, .fin 3] := by
  intro v hv
  simp only [List.mem_cons, List.not_mem_nil, or_false] at hv
  rcases hv with h | h | h | h | h | h | h | h <;> subst h <;> simp
example : finites (members 0 [2, 0, 0, 2, 1, 0, 2, 3] [.fin 4, .nan, .fin 1, .fin 7, .nan, .fin 2, .fin 5, .fin 3]) ≠ [] := by
  decide +kernel
example : engineFlox true (1/4) [2, 0, 0, 2, 1, 0, 2, 3] [.fin 4, .nan, .fin 1, .fin 7, .nan, .fin 2, .fin 5, .fin 3] 5 .nan
    = [.fin (5/4), .nan, .fin (9/2), .fin 3, .nan] := by decide +kernel
example : Spec.grouped true (1/4) [2, 0, 0, 2, 1, 0, 2, 3] [.fin 4, .nan, .fin 1, .fin 7, .nan, .fin 2, .fin 5, .fin 3] 5 .nan
    = [.fin (5/4), .nan, .fin (9/2), .fin 3, .nan] := by decide +kernel
example : engineFlox false (3/4) [1, 0, 1, 0, 1] [.fin 4, .fin 2, .fin 0, .nan, .fin 1] 2 .nan = [.nan, .fin (5/2)] := by
  decide +kernel
example : chooseMethod none true = .ok .blockwise := rfl
-- `eager_eq_spec` / `blockwise_block_eq_spec`: hypotheses hold on a request with unsorted and missing labels
example : ∀ q ∈ reqQs ⟨.nanquantile, .flox, some (.vector [3/4, 0])⟩, 0 ≤ q ∧ q ≤ 1 := by
  intro q hq; simp [reqQs, QFunc.isQuantile, QArg.toList] at hq; rcases hq with h | h <;> subst h <;> decide +kernel
example : runEager ⟨.nanquantile, .flox, some (.vector [3/4, 0])⟩ [some 5, none, some 2, some 5] [[.fin 1, .fin 9, .nan, .fin 3]] true
    = .ok { groups := [some 2, some 5], shape := [2, 2], vals := [.nan, .fin (5/2), .nan, .fin 1] } := by decide +kernel
example : (factorizeKeys [some 1, some (-1), some 1] none true).2.all (· == -1) = false := by decide +kernel
example : (runEager ⟨.nanquantile, .flox, some (.vector [3/4, 0])⟩ [some 5, some 2, some 5] [[.fin 1, .fin 2, .fin 3]] true).shape
    = [2, 2] := by decide +kernel

end Flox.C18
