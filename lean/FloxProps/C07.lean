/-
  C07 — multi-variable grouping and binning follow tuple-key and `pandas.cut` semantics.
  Property theorems only (helper lemmas live in FloxProofs/MultiBin.lean).

  Model (FloxModel/MultiBin.lean): `binCode` (= `np.digitize(...) - 1` with the `within_bins` mask of
  `_factorize_single`), `binCodeIv` (the same plus the gap mask for a non-contiguous IntervalIndex), `ravelCode` (= `np.ravel_multi_index(mode="wrap")` with `-1` restored, `_ravel_factorized`),
  the flat grouped result `grouped k codes vals (shapeProd shape) fill` whose reshape to `grp_shape` puts flat slot
  `ravelWrap idx shape` at entry `idx`.
  Spec: `cutCode` (`pandas.cut`: position of the interval that contains the value, `-1` if none), `inInterval`,
  `tupleMembers` (the elements whose tuple of codes is exactly `idx`).
-/
import FloxProofs.MultiBin

namespace Flox.C07

/-! ### binning = pandas.cut -/

/-- For strictly increasing contiguous edges (at least one), every value – finite, on an edge, outside, NaN, ±inf – and
    both closed sides: the code flox computes is the `pandas.cut` code. -/
theorem binCode_eq_cut (edges : List Rat) (hne : edges ≠ []) (hs : edges.Pairwise (· < ·)) (closedRight : Bool) (x : Val) :
    binCode edges closedRight x = cutCode (intervalsOfBreaks edges) closedRight x :=
  Flox.binCode_eq_cut edges hne hs closedRight x

/-- what the `pandas.cut` code means (1): `-1` exactly when no interval contains the value … -/
theorem cutCode_eq_neg_one_iff (ivs : List (Rat × Rat)) (closedRight : Bool) (x : Val) :
    cutCode ivs closedRight x = -1 ↔ ∀ iv ∈ ivs, inInterval closedRight iv x = false :=
  Flox.cutCode_eq_neg_one_iff ivs closedRight x

/-- … (2) on contiguous increasing edges, code `i` exactly when the value lies in the `i`-th interval
    (`(eᵢ, eᵢ₊₁]` or `[eᵢ, eᵢ₊₁)`): the lowest edge is excluded when closed on the right, the highest when closed on
    the left. -/
theorem binCode_eq_iff_mem (edges : List Rat) (hs : edges.Pairwise (· < ·)) (closedRight : Bool) (x : Val)
    (i : Nat) (iv : Rat × Rat) (hi : (intervalsOfBreaks edges)[i]? = some iv) :
    binCode edges closedRight x = (i : Int) ↔ inInterval closedRight iv x = true :=
  Flox.binCode_eq_iff_mem edges hs closedRight x i iv hi

/-- NaN and values outside all bins are dropped (code `-1`), and every code is `-1` or a valid bin number -/
theorem binCode_range (edges : List Rat) (hne : edges ≠ []) (hs : edges.Pairwise (· < ·)) (closedRight : Bool) (x : Val) :
    -1 ≤ binCode edges closedRight x ∧ binCode edges closedRight x < ((intervalsOfBreaks edges).length : Int) :=
  Flox.binCode_range edges hne hs closedRight x

example : binCode [0, 1, 3] true (.fin 0) = -1 ∧ binCode [0, 1, 3] true (.fin 1) = 0 ∧ binCode [0, 1, 3] true (.fin 3) = 1
    ∧ binCode [0, 1, 3] false (.fin 0) = 0 ∧ binCode [0, 1, 3] false (.fin 1) = 1 ∧ binCode [0, 1, 3] false (.fin 3) = -1
    ∧ binCode [0, 1, 3] true .nan = -1 ∧ binCode [0, 1, 3] true .pinf = -1 ∧ binCode [0, 1, 3] false .ninf = -1 := by
  decide +kernel

example : ([0, 1, 3] : List Rat).Pairwise (· < ·) ∧ ([0, 1, 3] : List Rat) ≠ [] := by decide +kernel

/-- The same for ANY sorted, non-overlapping IntervalIndex (`l₀ < r₀ ≤ l₁ < r₁ ≤ …`), contiguous or with gaps: the code of
    the repaired `_factorize_single` (digitize against the left edges plus the last right edge, then the gap mask
    `flat > rights[idx]` / `flat >= rights[idx]`) is the `pandas.cut` code. -/
theorem binCodeIv_eq_cut (ivs : List (Rat × Rat)) (hne : ivs ≠ []) (hs : SortedIvs ivs) (closedRight : Bool) (x : Val) :
    binCodeIv ivs closedRight x = cutCode ivs closedRight x :=
  Flox.binCodeIv_eq_cut ivs hne hs closedRight x

/-- an IntervalIndex with a gap (`[0,1) ∪ [2,3)`, formerly finding C07-F2): a value inside the gap is dropped, like pandas.cut;
    without the mask the digitize code alone would be 0 -/
example : SortedIvs [(0, 1), (2, 3)] ∧ binCodeIv [(0, 1), (2, 3)] false (.fin (3/2)) = -1
    ∧ cutCode [(0, 1), (2, 3)] false (.fin (3/2)) = -1 ∧ binCode (binsOf [(0, 1), (2, 3)]) false (.fin (3/2)) = 0
    ∧ binCodeIv [(0, 1), (2, 3)] false (.fin (1/2)) = 0 ∧ binCodeIv [(0, 1), (2, 3)] false (.fin 2) = 1
    ∧ binCodeIv [(0, 1), (2, 3)] true (.fin 1) = 0 ∧ binCodeIv [(0, 1), (2, 3)] true (.fin 2) = -1 := by
  refine ⟨⟨by decide +kernel, by decide +kernel, by show ((2 : Rat) < 3); decide +kernel⟩, ?_⟩
  decide +kernel

/-! ### combining the codes of several groupers -/

/-- codes within their shape survive ravel → unravel (the reshape of the flat group axis reads them back) -/
theorem ravel_unravel (codes : List Int) (shape : List Nat) (h : InRange codes shape) :
    unravel (ravelCode codes shape) shape = codes := by
  rw [show ravelCode codes shape = ravelWrap codes shape by simp [ravelCode, inRange_no_sentinel codes shape h]]
  exact unravel_ravelWrap codes shape h

/-- the flat code is `-1` exactly when some grouper dropped the element (`-1` is restored after the wrap) -/
theorem ravel_eq_neg_one_iff (codes : List Int) (shape : List Nat) (h : ValidRow codes shape) :
    ravelCode codes shape = -1 ↔ ∃ c ∈ codes, c = -1 :=
  ravelCode_eq_neg_one_iff codes shape h

/-- a kept element's flat code is a valid slot of the flat group axis -/
theorem ravel_bounds (codes : List Int) (shape : List Nat) (h : InRange codes shape) :
    0 ≤ ravelCode codes shape ∧ ravelCode codes shape < (shapeProd shape : Int) := by
  rw [show ravelCode codes shape = ravelWrap codes shape by simp [ravelCode, inRange_no_sentinel codes shape h]]
  exact ravelWrap_bounds codes shape h

/-- distinct code tuples get distinct flat codes -/
theorem ravel_injective (a b : List Int) (shape : List Nat) (ha : InRange a shape) (hb : InRange b shape)
    (h : ravelCode a shape = ravelCode b shape) : a = b := by
  rw [show ravelCode a shape = ravelWrap a shape by simp [ravelCode, inRange_no_sentinel a shape ha],
      show ravelCode b shape = ravelWrap b shape by simp [ravelCode, inRange_no_sentinel b shape hb]] at h
  exact ravelWrap_injective a b shape ha hb h

example : InRange [1, 0, 2] [2, 1, 3] ∧ ValidRow [1, -1, 2] [2, 1, 3] ∧ ravelCode [1, 0, 2] [2, 1, 3] = 5
    ∧ ravelCode [1, -1, 2] [2, 1, 3] = -1 ∧ unravel 5 [2, 1, 3] = [1, 0, 2] := by
  refine ⟨⟨by decide, by decide, by decide, by decide, by decide, by decide, trivial⟩,
          ⟨by decide, by decide, by decide, by decide, by decide, by decide, trivial⟩, ?_, ?_, ?_⟩ <;> decide +kernel

/-! ### tuple-key grouping -/

/-- For any number of groupers: entry `idx = (i, j, …)` of the result (flat slot `ravel idx` before the reshape to
    `grp_shape`) is the NumPy reduction of exactly the elements whose code tuple is `(i, j, …)`, in original order;
    the fill if there is none.  Elements with a `-1` anywhere in their tuple match no `idx` and are dropped. -/
theorem multi_eq_tuple_spec (k : Kernel) (rows : List (List Int)) (vals : List Val) (shape : List Nat) (fill : Val)
    (idx : List Int) (hidx : InRange idx shape) (hrows : ∀ r ∈ rows, ValidRow r shape) :
    (grouped k (rows.map (ravelCode · shape)) vals (shapeProd shape) fill)[(ravelWrap idx shape).toNat]? =
      some (if (tupleMembers idx rows vals).isEmpty then fill else kEval k (tupleMembers idx rows vals)) :=
  multi_slot k rows vals shape fill idx hidx hrows

/-- the whole result at once: the flat group axis, read in C order, lists the entries of all index tuples -/
theorem multi_eq_tuple_spec_all (k : Kernel) (rows : List (List Int)) (vals : List Val) (shape : List Nat) (fill : Val)
    (hrows : ∀ r ∈ rows, ValidRow r shape) :
    grouped k (rows.map (ravelCode · shape)) vals (shapeProd shape) fill =
      (allIndices shape).map fun idx =>
        if (tupleMembers idx rows vals).isEmpty then fill else kEval k (tupleMembers idx rows vals) :=
  multi_all k rows vals shape fill hrows

/-- an element is dropped if any of its labels is missing or unrequested -/
theorem dropped_if_any_missing (idx r : List Int) (shape : List Nat) (hidx : InRange idx shape) (hr : (-1 : Int) ∈ r)
    (rows : List (List Int)) (v : Val) (vals : List Val) :
    tupleMembers idx (r :: rows) (v :: vals) = tupleMembers idx rows vals :=
  Flox.dropped_if_any_missing idx r shape hidx hr rows v vals

example : grouped .sum ([[0, 1], [1, 0], [0, 1], [-1, 1], [1, -1]].map (ravelCode · [2, 2]))
    [.fin 1, .fin 2, .fin 4, .fin 8, .fin 16] (shapeProd [2, 2]) (.fin (-7)) = [.fin (-7), .fin 5, .fin 2, .fin (-7)] := by
  decide +kernel

/-! ### groupers with size-1 axes -/

/-- flox factorizes every grouper in its own shape and lets `np.ravel_multi_index` broadcast the codes; for a binned
    grouper (codes are computed element by element) that equals broadcasting the labels to the common shape first and
    taking the code of every broadcast label – i.e. the tuple of labels of an element of the broadcast arrays. -/
theorem broadcast_commutes (bins : List Rat) (right : Bool) (shp target : List Nat) (labels : List Val) :
    bcast shp target (labels.map (binCode bins right)) = (bcast shp target labels).map (binCode bins right) :=
  bcast_map (binCode bins right) shp target labels

example : bcast [2, 1] [2, 3] [10, 20] = [10, 10, 10, 20, 20, 20] ∧ bcast [1, 3] [2, 3] [1, 2, 3] = [1, 2, 3, 1, 2, 3] := by
  decide

/-! ### dask labels -/

/-- `_factorize_multiple` with dask labels factorizes every block on its own, against the globally found groups
    (`pd.unique` with NaN dropped, sorted when `sort`; repaired – formerly finding C07-F1).  For a categorical grouper
    without expected groups the per-block codes, concatenated, are the codes of the whole-array factorisation, for every
    chunking that covers the array: lazy = eager. -/
theorem lazy_eq_eager_cat (labels : List Key) (sort : Bool) (chunks : List Nat) (h : labels.length ≤ chunks.sum) :
    ((splitBy chunks labels).map fun blk =>
        (factorizeLabels blk (some (factorizeLabels labels none sort).1) sort).2).flatten
      = (factorizeLabels labels none sort).2 :=
  Flox.lazy_eq_eager_cat labels sort chunks h

/-- … and likewise with requested groups -/
theorem lazy_eq_eager_expected (labels : List Key) (ex : List Rat) (sort : Bool) (chunks : List Nat)
    (h : labels.length ≤ chunks.sum) :
    ((splitBy chunks labels).map fun blk => (factorizeLabels blk (some ex) sort).2).flatten
      = (factorizeLabels labels (some ex) sort).2 :=
  Flox.lazy_eq_eager_expected labels ex sort chunks h

/-- the former witness of C07-F1 (labels `[3,3,5,5]` in blocks of 2 next to a dask grouper): both paths now agree
    (shown with `sort=False`; with `sort=True` the kernel cannot unfold `List.mergeSort`, the theorem above covers it) -/
example :
    (factorizeLazy [2, 2] [[.fin 0, .fin 0, .fin 0, .fin 0], [.fin 3, .fin 3, .fin 5, .fin 5]] [.cat [0], .none] false).toOption.map (·.codes)
      = some [0, 0, 1, 1] ∧
    (factorizeEager [([4], [.fin 0, .fin 0, .fin 0, .fin 0]), ([4], [.fin 3, .fin 3, .fin 5, .fin 5])] [.cat [0], .none] false).toOption.map (·.codes)
      = some [0, 0, 1, 1] := by
  decide +kernel

/-- a grouper without any group next to another one (formerly finding C07-F3): every element is dropped, no error -/
example :
    (factorizeEager [([2], [.nan, .nan]), ([2], [.fin 0, .fin 1])] [.none, .none] true).toOption.map (fun f => (f.shape, f.codes))
      = some ([0, 2], [-1, -1]) := by
  decide +kernel

/-- with expected groups for every grouper the block-by-block factorisation is elementwise, hence independent of the
    chunking: stated for the binned case, the code of an element does not depend on its block -/
theorem lazy_binned_blockwise (bins : List Rat) (right : Bool) (b₁ b₂ : List Val) :
    (b₁ ++ b₂).map (binCode bins right) = b₁.map (binCode bins right) ++ b₂.map (binCode bins right) :=
  List.map_append

end Flox.C07
