/-
  Line-protocol driver for the correspondence harness: one operation per input line, one result line out.
  Built as a native executable (`lake build driver`); imports only the core-Lean model.
  Each operation family lives in its own module under DriverOps/ and is registered in `ops` below.
-/
import DriverOps.Reduce
import DriverOps.Quantile
import DriverOps.Scan
import DriverOps.Rechunk
import DriverOps.Partial
import DriverOps.UserAgg
import DriverOps.Cohorts
import DriverOps.Graph
import DriverOps.MultiBin
import DriverOps.Dtype
import DriverOps.XDims
import DriverOps.C19
import DriverOps.State
import DriverOps.IntWidth

open Flox DriverOps

/-- operation name ↦ handler (receives the `|`-separated sections, first token of the first section = op name) -/
def ops : List (String × (List (List String) → String)) :=
  [ ("reduce", handleReduce), ("spec", handleReduce), ("kernel", handleReduce),
    ("quantile", handleQuantile), ("qkernel", handleQuantile),
    ("scan", handleScan),
    ("rechunk-optimal", handleRechunk), ("rechunk-blockwise", handleRechunk), ("rechunk-cohorts", handleRechunk), ("rechunk-spec", handleRechunk),
    ("partial", handlePartial),
    ("reduceR", handleUserAgg),
    ("cohorts", handleCohorts), ("cohortspec", handleCohorts),
    ("graph", handleGraph),
    ("bincode", handleMultiBin), ("ravel", handleMultiBin), ("factor", handleMultiBin), ("multi", handleMultiBin),
    ("dtype", handleDtype), ("dchunks", handleDtype),
    ("xdims", handleXDims), ("xdims-spec", handleXDims), ("xskipna", handleXDims),
    ("c19validate", handleC19Validate), ("c19judge", handleC19Judge),
    ("history", handleState), ("names", handleState), ("merge", handleState),
    ("intwidth", handleIntWidth) ]

def handle (line : String) : String :=
  let secs := sections line
  match secs with
  | (op :: _) :: _ =>
    match ops.lookup op with
    | some h => h secs
    | none => "bad-op unknown " ++ op
  | _ => "bad-op empty"

partial def loop (h : IO.FS.Stream) (out : IO.FS.Stream) : IO Unit := do
  let line ← h.getLine
  if line.isEmpty then return ()
  let l := line.trimAscii.toString
  if l ≠ "" then out.putStrLn (handle l)
  loop h out

def main : IO Unit := do
  let out ← IO.getStdout
  loop (← IO.getStdin) out
  out.flush
